"""Common driver: fan work items out to worker processes, collect solver
verdicts, replay counterexamples on the real code, match known findings,
write evidence, print VIOLATION / KNOWN-FINDING lines and pick the exit code.

Exit codes: 0 = property held on everything explored (known findings may be
listed), 1 = at least one reproduced violation that is not a listed finding,
3 = harness error (vacuous harness, non-reproducing model, everything
inconclusive, worker crash) -- never reported as a VIOLATION.
"""

import hashlib
import importlib
import contextlib
import json
import multiprocessing as mp
import os
import sys
import time
import traceback

import z3

from . import symx

VERIF = os.path.dirname(os.path.dirname(os.path.abspath(__file__)))
REPO = os.environ.get("VERIF_REPO", "/repo")
EXIT_OK, EXIT_VIOLATION, EXIT_HARNESS = 0, 1, 3


# ---------------------------------------------------------------------------
# per-item record


class Rec:
    """Accumulates what one work item did."""

    def __init__(self, item):
        self.item = item
        self.obligations = 0
        self.discharged = 0
        self.inconclusive = 0
        self.refuted = []
        self.n_refuted = 0
        self._kept_keyed = {}
        self._kept_unkeyed = 0
        self.reach = 0
        self.paths = 0
        self.aborted = 0
        self.unsupported = {}
        self.budget_hit = False
        self.stats = {}
        self.samples = []
        self.validated = 0
        self.validation_failures = []
        self.notes = {}
        self.error = None

    # an obligation: "pc /\ bad is unsatisfiable"
    def refute(self, ctx, bad, label, viol_fn=None, reach_probe=True, timeout_ms=None):
        self.obligations += 1
        if reach_probe and self.reach < 3:
            # reachability twin: the same harness with claim False must be
            # violated, i.e. the path condition at the assertion is satisfiable
            if ctx.check() == "sat":
                self.reach += 1
        if bad is False:
            self.discharged += 1
            return "unsat"
        if bad is True:
            bad = z3.BoolVal(True)
        r = ctx.check(bad, timeout_ms=timeout_ms)
        if r == "unsat":
            self.discharged += 1
        elif r == "sat":
            m = ctx.last_model()
            v = {"label": label}
            if viol_fn is not None:
                try:
                    v.update(viol_fn(m))
                except Exception as e:  # noqa
                    v["viol_fn_error"] = repr(e)
            self._keep(v)
        else:
            # `unknown` on a disjunction: decide the disjuncts one by one (each is a smaller query);
            # all unsat => the disjunction is unsat; any sat => a counterexample; otherwise inconclusive
            if z3.is_expr(bad) and z3.is_or(bad) and bad.num_args() > 1:
                rs = []
                for ch in bad.children():
                    rc = ctx.check(ch, timeout_ms=timeout_ms)
                    rs.append(rc)
                    if rc == "sat":
                        m = ctx.last_model()
                        v = {"label": label}
                        if viol_fn is not None:
                            try:
                                v.update(viol_fn(m))
                            except Exception as e:  # noqa
                                v["viol_fn_error"] = repr(e)
                        self._keep(v)
                        return "sat"
                    if rc != "unsat":
                        break
                if rs and all(x == "unsat" for x in rs) and len(rs) == bad.num_args():
                    self.discharged += 1
                    self.notes["unknown_resolved_by_splitting"] = self.notes.get("unknown_resolved_by_splitting", 0) + 1
                    return "unsat"
            self.inconclusive += 1
        return r

    @contextlib.contextmanager
    def guarded(self, ctx, label, viol_fn=None):
        """real code under test runs inside: an ordinary exception it raises (on an input the property
        quantifies over) is a violation candidate like any other -- recorded with the model of the
        path and replayed before it is reported -- instead of crashing the work item"""
        try:
            yield
        except Exception as e:  # noqa  (the executor's control exceptions derive from BaseException)
            err = repr(e)

            def vf(m):
                d = dict(viol_fn(m)) if viol_fn is not None else {}
                d["raised"] = err
                if "signature" in d:
                    d["signature"] = list(d["signature"]) + ["raised", type(e).__name__]
                return d

            self.refute(ctx, True, label + " (real code raised)", vf)
            raise symx.PathAbort()

    def guard_harness(self, fn, label, viol0):
        """wrap a whole harness in `guarded`; viol0(m) must build the violation record from state the harness
        publishes as it goes (e.g. a dict filled right after the symbolic inputs are created)"""

        def h(ctx, *a, **k):
            with self.guarded(ctx, label, viol0):
                return fn(ctx, *a, **k)

        return h

    def refute_identity(self, ctx, bad, label, viol_fn=None):
        """Like refute, but first tries to discharge `bad` WITHOUT the path
        condition (a universally valid identity holds on every path); falls
        back to the query under the path condition."""
        if bad is False or bad is True:
            return self.refute(ctx, bad, label, viol_fn)
        import time as _t

        s2 = z3.Solver()
        s2.set("timeout", 3000)
        s2.add(bad)
        t0 = _t.perf_counter()
        r = s2.check()
        ctx.nq += 1
        ctx.solver_s += _t.perf_counter() - t0
        if r == z3.unsat:
            ctx.n_unsat += 1
            self.obligations += 1
            self.discharged += 1
            if self.reach < 3:
                self.reach += 1  # the assertion was reached on a followed path
            return "unsat"
        return self.refute(ctx, bad, label, viol_fn)

    def _keep(self, v):
        """keep counterexamples for replay: separate caps for those that claim
        to be a listed finding (per key) and for all others"""
        self.n_refuted += 1
        fk = v.get("finding_key")
        if fk is not None:
            n = self._kept_keyed.get(fk, 0)
            if n < 4:
                self._kept_keyed[fk] = n + 1
                self.refuted.append(v)
                return
        elif self._kept_unkeyed < 30:
            self._kept_unkeyed += 1
            self.refuted.append(v)
            return
        self.notes["refuted_not_kept_for_replay"] = self.notes.get("refuted_not_kept_for_replay", 0) + 1

    def concrete_violation(self, label, data):
        """A violation established without a final solver query (e.g. the
        symbolic run itself raised where the property forbids it)."""
        self.obligations += 1
        v = {"label": label}
        v.update(data)
        self._keep(v)

    def add_explore(self, out):
        self.paths += out.paths
        self.aborted += out.aborted
        for k, v in out.unsupported.items():
            self.unsupported[k] = self.unsupported.get(k, 0) + v
        self.budget_hit = self.budget_hit or out.budget_hit
        for k, v in out.stats.items():
            self.stats[k] = round(self.stats.get(k, 0) + v, 4)

    def sample(self, s, cap=2):
        if len(self.samples) < cap:
            self.samples.append(s)

    def to_dict(self):
        return dict(
            item=self.item,
            obligations=self.obligations,
            discharged=self.discharged,
            inconclusive=self.inconclusive,
            refuted=self.refuted,
            n_refuted=self.n_refuted,
            reach=self.reach,
            paths=self.paths,
            aborted=self.aborted,
            unsupported=self.unsupported,
            budget_hit=self.budget_hit,
            stats=self.stats,
            samples=self.samples,
            validated=self.validated,
            validation_failures=self.validation_failures,
            notes=self.notes,
            error=self.error,
        )


# ---------------------------------------------------------------------------
# function coverage of /repo (which real functions were entered)

_ENTERED = set()
_MON = False


def _start_monitoring():
    global _MON
    if _MON or not hasattr(sys, "monitoring"):
        return
    mon = sys.monitoring
    tool = 3
    try:
        mon.use_tool_id(tool, "verif")
    except ValueError:
        return
    prefix = os.path.join(REPO, "cotengra")

    def on_start(code, offset):
        fn = code.co_filename
        if fn.startswith(prefix):
            _ENTERED.add(f"{os.path.relpath(fn, REPO)}:{code.co_qualname}")
        return mon.DISABLE

    mon.register_callback(tool, mon.events.PY_START, on_start)
    mon.set_events(tool, mon.events.PY_START)
    _MON = True


_MODULE = None
_SENT = set()


_TIER_DEADLINE = None


def _worker_init(modname, tier_deadline=None):
    global _MODULE, _TIER_DEADLINE
    _TIER_DEADLINE = tier_deadline
    symx.GLOBAL_DEADLINE = tier_deadline
    # import first so that module / class bodies are not counted as "entered"
    _MODULE = importlib.import_module(modname)
    import cotengra  # noqa
    import cotengra.pathfinders.path_basic, cotengra.pathfinders.path_simulated_annealing  # noqa
    import cotengra.slicer, cotengra.reusable, cotengra.presets, cotengra.interface  # noqa
    _start_monitoring()


def _worker_run(item):
    t0 = time.perf_counter()
    rec = Rec(item)
    try:
        if _TIER_DEADLINE is not None and time.time() > _TIER_DEADLINE:
            # the tier's overall time budget is used up: the item is not explored and is reported as such
            rec.notes["skipped_tier_budget"] = 1
            rec.budget_hit = True
        else:
            _MODULE.run_item(item, rec)
    except BaseException as e:  # noqa
        rec.error = "".join(traceback.format_exception(e))[-3000:]
    d = rec.to_dict()
    d["wall_s"] = round(time.perf_counter() - t0, 3)
    new = _ENTERED - _SENT
    _SENT.update(new)
    d["entered"] = sorted(new)
    return d


# ---------------------------------------------------------------------------


def load_known():
    p = os.path.join(VERIF, "known_findings.json")
    if not os.path.exists(p):
        return {"findings": [], "fixed": []}
    return json.load(open(p))


def main(modname, argv=None):
    import argparse

    ap = argparse.ArgumentParser()
    ap.add_argument("--tier", default=os.environ.get("VERIF_TIER", "quick"))
    ap.add_argument("--replay", default=None)
    ap.add_argument("--jobs", type=int, default=int(os.environ.get("VERIF_JOBS", os.cpu_count() or 4)))
    ap.add_argument("--only", default=None, help="substring filter on item ids (debug)")
    ap.add_argument("--no-evidence", action="store_true")
    args = ap.parse_args(argv)
    tier = "thorough" if args.tier.startswith("t") else "quick"
    seed = int(os.environ.get("VERIF_SEED", "0") or 0)

    mod = importlib.import_module(modname)
    pid = mod.PROPERTY

    if args.replay:
        viol = json.load(open(args.replay))
        ok, detail = mod.replay(viol["violation"])
        print(("REPRODUCED " if ok else "NOT-REPRODUCED ") + detail)
        return EXIT_VIOLATION if ok else EXIT_OK

    t0 = time.perf_counter()
    items = mod.items(tier, seed)
    if args.only:
        items = [it for it in items if args.only in json.dumps(it)]
    # VERIF_SEED only permutes the work order
    import random as _random

    _random.Random(seed).shuffle(items)

    # overall time budget of a tier (thorough: 20 min by default; quick: none): once it is used up, running
    # explorations stop with a budget hit and the remaining work items are reported as not explored
    budget_s = os.environ.get("VERIF_THOROUGH_BUDGET_S" if tier == "thorough" else "VERIF_QUICK_BUDGET_S", "1200" if tier == "thorough" else "")
    tier_deadline = (time.time() + float(budget_s)) if budget_s else None

    results = []
    if args.jobs <= 1:
        _worker_init(modname, tier_deadline)
        for it in items:
            results.append(_worker_run(it))
    else:
        ctx = mp.get_context("fork")
        with ctx.Pool(min(args.jobs, max(1, len(items))), initializer=_worker_init, initargs=(modname, tier_deadline)) as pool:
            for r in pool.imap_unordered(_worker_run, items, chunksize=1):
                results.append(r)

    # ---- aggregate
    agg = dict(obligations=0, discharged=0, inconclusive=0, paths=0, aborted=0, reach=0, validated=0, n_refuted=0)
    stats = {}
    unsupported = {}
    entered = set()
    refuted = []
    samples = []
    errors = []
    vfail = []
    budget_items = 0
    vacuous_items = []
    notes = {}
    if os.environ.get("VERIF_DEBUG"):
        for r in sorted(results, key=lambda r: -r["wall_s"])[:12]:
            print("DEBUG item wall", r["wall_s"], "paths", r["paths"], "budget", r["budget_hit"], json.dumps(r["item"], default=str)[:200])
    for r in results:
        for k in agg:
            agg[k] += r[k]
        for k, v in r["stats"].items():
            stats[k] = round(stats.get(k, 0) + v, 4)
        for k, v in r["unsupported"].items():
            unsupported[k] = unsupported.get(k, 0) + v
        entered.update(r["entered"])
        for v in r["refuted"]:
            v["item"] = r["item"]
            refuted.append(v)
        if len(samples) < 6:
            samples.extend(r["samples"][:1])
        if r["error"]:
            errors.append((r["item"], r["error"]))
        vfail.extend(r["validation_failures"])
        budget_items += bool(r["budget_hit"])
        if r["obligations"] > 0 and r["reach"] == 0:
            vacuous_items.append(r["item"])
        for k, v in r["notes"].items():
            if isinstance(v, (int, float)):
                notes[k] = notes.get(k, 0) + v
            else:
                notes.setdefault(k, v)

    # ---- replay the counterexamples on the real code
    known = load_known()
    open_findings = [f for f in known.get("findings", []) if f["property"] == pid]
    violations = []
    known_hits = {}
    not_reproduced = []
    seen_sig = set()
    open_keys = {f["key"] for f in open_findings}
    per_key = {}
    # violations that do not claim to be a listed finding are replayed first
    refuted.sort(key=lambda v: v.get("finding_key") in open_keys)
    n_unkeyed = 0
    for v in refuted:
        sig = v.get("signature") or json.dumps(v, sort_keys=True, default=str)
        sig = json.dumps(sig, sort_keys=True, default=str) if not isinstance(sig, str) else sig
        if sig in seen_sig:
            continue
        seen_sig.add(sig)
        fk = v.get("finding_key")
        if fk in open_keys:
            # a few replays per listed finding are enough to confirm it is still there
            per_key[fk] = per_key.get(fk, 0) + 1
            if per_key[fk] > 3:
                continue
        else:
            n_unkeyed += 1
            if n_unkeyed > 40:
                continue
        try:
            ok, detail = mod.replay(v)
        except Exception as e:  # noqa
            if v.get("raised") and type(e).__name__ in str(v["raised"]):
                # the symbolic path ended in this exception inside a `guarded` block (real code only), and the
                # concrete replay of the model raises the same kind of exception
                ok, detail = True, f"real code raised {e!r} on the replayed input"
            else:
                ok, detail = False, "replay raised: " + "".join(traceback.format_exception(e))[-1500:]
        v["replay_detail"] = detail
        if not ok:
            not_reproduced.append(v)
            continue
        hit = next((f for f in open_findings if fk is not None and f["key"] == fk), None)
        if hit is not None:
            known_hits.setdefault(hit["key"], (hit, v))
        else:
            violations.append(v)

    wall = round(time.perf_counter() - t0, 2)

    # ---- replay files + report lines
    lines = []
    for key, (f, v) in known_hits.items():
        lines.append(f"KNOWN-FINDING: property={pid} {f['what']}")
    rdir = os.path.join(VERIF, "replays", pid)
    for v in violations:
        os.makedirs(rdir, exist_ok=True)
        blob = json.dumps({"property": pid, "violation": v}, indent=1, sort_keys=True, default=str)
        path = os.path.join(rdir, hashlib.sha1(blob.encode()).hexdigest()[:12] + ".json")
        with open(path, "w") as fh:
            fh.write(blob)
        lines.append(f"VIOLATION property={pid} replay={path}")

    harness_problems = []
    if errors:
        harness_problems.append(f"{len(errors)} work item(s) crashed: {errors[0][1][-600:]}")
    if not_reproduced:
        harness_problems.append(
            f"{len(not_reproduced)} solver model(s) did not reproduce on the real code: "
            + json.dumps(not_reproduced[0], default=str)[:800]
            + (" ... all in " + os.environ["VERIF_DUMP_NOT_REPRODUCED"] if os.environ.get("VERIF_DUMP_NOT_REPRODUCED") and not json.dump(not_reproduced, open(os.environ["VERIF_DUMP_NOT_REPRODUCED"], "w"), default=str) else "")
        )
    if vacuous_items:
        harness_problems.append(f"{len(vacuous_items)} item(s) had no reachable assertion (vacuous): {vacuous_items[:3]}")
    if vfail:
        harness_problems.append(f"{len(vfail)} engine-validation failure(s): {vfail[:2]}")
    if agg["obligations"] == 0:
        harness_problems.append("no obligations were generated")
    elif agg["discharged"] == 0 and not violations and not known_hits:
        harness_problems.append("every obligation was inconclusive")

    # ---- evidence
    ev = {
        "property_id": pid,
        "tier": tier,
        "seed": seed,
        "level": "model_checking",
        "coverage": {
            "states": max(agg["paths"], 0),
            "transitions": int(stats.get("decided", 0)),
            "traces_validated_against_impl": agg["validated"],
            "samples": samples or [{"note": "no samples recorded"}],
            "exhaustive": bool(budget_items == 0 and not unsupported and agg["inconclusive"] == 0),
            "work_items": len(items),
            "obligations": agg["obligations"],
            "discharged_unsat": agg["discharged"],
            "refuted_sat": agg["n_refuted"],
            "inconclusive_unknown": agg["inconclusive"],
            "paths_infeasible_dropped": agg["aborted"],
            "paths_closed_unsupported": unsupported,
            "items_budget_exhausted": budget_items,
            "items_not_explored_tier_budget": int(notes.get("skipped_tier_budget", 0)) if isinstance(notes, dict) else 0,
            "tier_time_budget_s": (float(budget_s) if budget_s else None),
            "reachability_witnesses": agg["reach"],
            "solver_queries": {k: stats.get(k, 0) for k in ("queries", "sat", "unsat", "unknown")},
            "solver_forks": stats.get("forks", 0),
            "solver_s": stats.get("solver_s", 0),
            "functions_encoded": sorted(entered),
            "bounds": getattr(mod, "bounds", lambda t: {})(tier),
            "stubs": getattr(mod, "STUBS", []),
            "outside_claim": getattr(mod, "OUTSIDE", []),
            "known_findings_hit": sorted(known_hits),
            "notes": notes,
            "harness_problems": harness_problems,
        },
        "assumptions": getattr(mod, "ASSUMPTIONS", []),
        "wall_s": wall,
        "violations": len(violations),
    }
    if ev["coverage"]["states"] < 1:
        ev["coverage"]["states"] = 1
    if ev["coverage"]["transitions"] < 1:
        ev["coverage"]["transitions"] = 1
    if not args.no_evidence:
        os.makedirs(os.path.join(VERIF, "evidence"), exist_ok=True)
        with open(os.path.join(VERIF, "evidence", f"{pid}.json"), "w") as fh:
            json.dump(ev, fh, indent=1, sort_keys=True, default=str)

    for ln in lines:
        print(ln)
    print(
        f"[{pid} {tier}] items={len(items)} paths={agg['paths']} obligations={agg['obligations']} "
        f"unsat={agg['discharged']} sat={agg['n_refuted']} unknown={agg['inconclusive']} "
        f"unsupported={sum(unsupported.values())} budget_hit={budget_items} queries={stats.get('queries', 0)} "
        f"solver_s={stats.get('solver_s', 0)} validated={agg['validated']} wall={wall}s"
    )
    if violations:
        return EXIT_VIOLATION
    if harness_problems:
        for h in harness_problems:
            print("HARNESS-ERROR:", h)
        return EXIT_HARNESS
    return EXIT_OK
