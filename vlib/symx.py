"""symx -- replay-based symbolic executor over z3.

The *unmodified* functions of /repo are executed natively on proxy values
(`SInt`, `SReal`, `SBool`).  The only place control flow meets a symbol is
`SBool.__bool__` (and the explicit concretisations `__index__/__int__`), where
the solver decides which directions are feasible under the current path
condition; one is followed, the other is queued as a *decision prefix* and the
harness is re-executed from the start for it (replay DFS).

A harness is a function ``fn(ctx) -> result``.  ``explore(fn)`` runs it once
per feasible path.  All harnesses must be deterministic functions of the
decisions taken (fresh symbols are named from per-path counters).

Nothing here samples: every branch direction that is followed was shown
satisfiable (or not refuted within the query timeout, counted as `unknown`)
and every direction that is dropped was shown unsatisfiable by z3.
"""

import fractions
import sys
import itertools
import os
import time

import z3

INF = float("inf")
if hasattr(sys, "set_int_max_str_digits"):
    sys.set_int_max_str_digits(0)  # z3 models may contain very large integers


class PathAbort(BaseException):
    """Current path is infeasible (both directions refuted / assumption false)."""


class Unsupported(BaseException):
    """Path closed because a value escaped in a way we do not model."""

    def __init__(self, reason):
        super().__init__(reason)
        self.reason = reason


class ReplayDivergence(Unsupported):
    """The harness did not behave deterministically under replay."""

    def __init__(self, what):
        super().__init__("replay divergence: harness is not a deterministic function of the decisions")


class Budget(BaseException):
    """Exploration budget for this item exhausted."""


CTX = None


def ctx():
    return CTX


class Ctx:
    def __init__(self, timeout_ms=2000, max_enum=64):
        self.solver = z3.Solver()
        self.timeout_ms = int(os.environ.get("VERIF_Z3_TIMEOUT_MS", timeout_ms))
        self.solver.set("timeout", self.timeout_ms)
        self.max_enum = max_enum
        self.prefix = []
        self.pos = 0
        self.work = []
        self.pc = []
        self.names = {}
        # statistics
        self.nq = 0
        self.n_sat = 0
        self.n_unsat = 0
        self.n_unknown = 0
        self.n_forks = 0  # solver-decided branch points (both directions feasible)
        self.n_decided = 0  # solver-decided branch points (any outcome)
        self.solver_s = 0.0
        self.paths = 0
        self.aborted = 0
        self.unsupported = {}
        self.path_tags = None
        self._pushed = False

    # -- path management -------------------------------------------------
    def reset(self, prefix):
        if self._pushed:
            self.solver.pop()
        self.solver.push()
        self._pushed = True
        self.prefix = list(prefix)
        self.pos = 0
        self.pc = []
        self.names = {}
        self.path_tags = {}

    def fresh_name(self, base):
        n = self.names.get(base, 0)
        self.names[base] = n + 1
        return f"{base}#{n}" if n else base

    def _add(self, c):
        self.pc.append(c)
        self.solver.add(c)

    def assume(self, cond):
        """Add a constraint to the path condition (no fork)."""
        if isinstance(cond, SBool):
            cond = cond.e
        if cond is True:
            return
        if cond is False:
            raise PathAbort()
        self._add(cond)

    def check(self, *conds, timeout_ms=None):
        """Is pc /\\ conds satisfiable?  returns 'sat' / 'unsat' / 'unknown'."""
        self.nq += 1
        t = time.perf_counter()
        if timeout_ms is not None:
            self.solver.set("timeout", int(timeout_ms))
        self.solver.push()
        for c in conds:
            self.solver.add(c)
        r = self.solver.check()
        self._last_model = self.solver.model() if r == z3.sat else None
        self.solver.pop()
        if timeout_ms is not None:
            self.solver.set("timeout", self.timeout_ms)
        self.solver_s += time.perf_counter() - t
        if r == z3.sat:
            self.n_sat += 1
            return "sat"
        if r == z3.unsat:
            self.n_unsat += 1
            return "unsat"
        self.n_unknown += 1
        return "unknown"

    def model(self):
        """A model of the current path condition (or None)."""
        r = self.check()
        return self._last_model if r == "sat" else None

    def last_model(self):
        return self._last_model

    # -- forking ----------------------------------------------------------
    def branch(self, cond):
        """Decide a symbolic condition; returns a python bool."""
        if self.pos < len(self.prefix):
            d = self.prefix[self.pos]
            if not isinstance(d, bool):
                raise ReplayDivergence("bool")
        else:
            self.n_decided += 1
            t = self.check(cond) != "unsat"
            # pc is satisfiable (invariant of a followed path), so if cond is
            # refuted its negation needs no second query
            f = True if not t else self.check(z3.Not(cond)) != "unsat"
            if t and f:
                self.n_forks += 1
                self.work.append(self.prefix[: self.pos] + [False])
                d = True
            elif t:
                d = True
            elif f:
                d = False
            else:
                raise PathAbort()
            self.prefix.append(d)
        self.pos += 1
        self._add(cond if d else z3.Not(cond))
        return d

    def branch_blind(self, cond):
        """Fork on ``cond`` WITHOUT asking the solver which directions are
        feasible (both are followed).  Sound: an infeasible path can only add
        obligations; a refutation is still a model of the whole path condition."""
        if self.pos < len(self.prefix):
            d = self.prefix[self.pos]
            if not isinstance(d, bool):
                raise ReplayDivergence("bool")
        else:
            self.n_decided += 1
            self.n_forks += 1
            self.work.append(self.prefix[: self.pos] + [False])
            d = True
            self.prefix.append(d)
        self.pos += 1
        self._add(cond if d else z3.Not(cond))
        return d

    def concretize(self, e):
        """Fork over every feasible integer value of z3 Int term ``e``."""
        e = z3.simplify(e)
        if z3.is_int_value(e):
            return e.as_long()
        if self.pos < len(self.prefix) and not isinstance(
            self.prefix[self.pos], tuple
        ):
            raise ReplayDivergence("value")
        if self.pos < len(self.prefix) and self.prefix[self.pos][0] == "val":
            v = self.prefix[self.pos][1]
        else:
            if self.pos < len(self.prefix):
                excl = list(self.prefix[self.pos][1])
                del self.prefix[self.pos :]
            else:
                excl = []
            if len(excl) >= self.max_enum:
                raise Unsupported("concretisation of a value with too many cases")
            self.n_decided += 1
            r = self.check(*[e != x for x in excl])
            if r == "unknown":
                # a descheduled process can lose a trivial query to the wall-clock timeout: retry once, generously
                r = self.check(*[e != x for x in excl], timeout_ms=max(20000, 5 * self.timeout_ms))
            if r == "unsat":
                raise PathAbort()
            if r == "unknown":
                raise Unsupported("concretisation query unknown")
            v = self._last_model.eval(e, model_completion=True).as_long()
            # is there any other value?
            if self.check(*[e != x for x in excl + [v]]) != "unsat":
                self.n_forks += 1
                self.work.append(self.prefix[: self.pos] + [("excl", excl + [v])])
            self.prefix.append(("val", v))
        self.pos += 1
        self._add(e == v)
        return v

    def unsupported(self, reason):
        raise Unsupported(reason)


# ---------------------------------------------------------------------------
# proxies


def _is_inf(x):
    return isinstance(x, float) and (x == INF or x == -INF)


def _realval(x):
    if isinstance(x, float):
        fr = fractions.Fraction(x)
        return z3.Q(fr.numerator, fr.denominator)
    return z3.RealVal(x)


class SBool:
    __slots__ = ("e",)

    def __init__(self, e):
        self.e = e

    def __bool__(self):
        e = self.e
        if z3.is_true(e):
            return True
        if z3.is_false(e):
            return False
        return CTX.branch(e)

    def __invert__(self):
        return SBool(z3.Not(self.e))

    def __and__(self, o):
        return SBool(z3.And(self.e, _lift_bool(o)))

    __rand__ = __and__

    def __or__(self, o):
        return SBool(z3.Or(self.e, _lift_bool(o)))

    __ror__ = __or__

    def __repr__(self):
        return f"SBool({self.e})"


class SBlindBool(SBool):
    """a symbolic bool whose truth value is forked blindly (see branch_blind)"""

    __slots__ = ()

    def __bool__(self):
        e = self.e
        if z3.is_true(e):
            return True
        if z3.is_false(e):
            return False
        return CTX.branch_blind(e)


def _lift_bool(o):
    if isinstance(o, SBool):
        return o.e
    return z3.BoolVal(bool(o))


def _mk_bool(e):
    e = z3.simplify(e)
    if z3.is_true(e):
        return True
    if z3.is_false(e):
        return False
    return SBool(e)


class SInt:
    """Symbolic python int (z3 Int).  Not a subclass of int on purpose."""

    __slots__ = ("e",)

    def __init__(self, e):
        self.e = e

    @property
    def __class__(self):
        return int

    # -- lifting
    @staticmethod
    def lift(x):
        if type(x) is SInt:
            return x.e
        if type(x) is bool:
            return z3.IntVal(int(x))
        if type(x) is int:
            return z3.IntVal(x)
        if isinstance(x, SInt):
            return x.e
        return None

    def _bin(self, o, f):
        oe = SInt.lift(o)
        if oe is None:
            t = type(o)
            if t is float:
                # int (op) float -> float: redo the operation on the real proxy
                return f(SReal(z3.ToReal(self.e)), o)
            return NotImplemented
        return SInt(f(self.e, oe))

    def __add__(self, o):
        return self._bin(o, lambda a, b: a + b)

    def __radd__(self, o):
        return self._bin(o, lambda a, b: b + a)

    def __sub__(self, o):
        return self._bin(o, lambda a, b: a - b)

    def __rsub__(self, o):
        return self._bin(o, lambda a, b: b - a)

    def __mul__(self, o):
        if type(o) is int and o == 1:
            return self
        return self._bin(o, lambda a, b: a * b)

    def __rmul__(self, o):
        if type(o) is int and o == 1:
            return self
        return self._bin(o, lambda a, b: b * a)

    def _posdiv(self, num, den):
        # python floor division == z3 (euclidean) division when divisor > 0
        if z3.is_int_value(den):
            if den.as_long() > 0:
                return
            raise Unsupported("floor division by non-positive constant")
        if CTX.check(den <= 0) != "unsat":
            raise Unsupported("floor division by a possibly non-positive symbol")

    def __floordiv__(self, o):
        oe = SInt.lift(o)
        if oe is None:
            return NotImplemented
        if type(o) is int and o == 1:
            return self
        self._posdiv(self.e, oe)
        ex = _exact_div(self.e, oe)
        if ex is not None:
            return ex
        return SInt(self.e / oe)

    def __rfloordiv__(self, o):
        oe = SInt.lift(o)
        if oe is None:
            return NotImplemented
        self._posdiv(oe, self.e)
        return SInt(oe / self.e)

    def __mod__(self, o):
        oe = SInt.lift(o)
        if oe is None:
            return NotImplemented
        self._posdiv(self.e, oe)
        return SInt(self.e % oe)

    def __rmod__(self, o):
        oe = SInt.lift(o)
        if oe is None:
            return NotImplemented
        self._posdiv(oe, self.e)
        return SInt(oe % self.e)

    def __divmod__(self, o):
        return self // o, self % o

    def __rdivmod__(self, o):
        return o // self, o % self

    def __truediv__(self, o):
        return SReal(z3.ToReal(self.e)) / o

    def __rtruediv__(self, o):
        return o / SReal(z3.ToReal(self.e))

    def __neg__(self):
        return SInt(-self.e)

    def __pos__(self):
        return self

    def __abs__(self):
        return SInt(z3.If(self.e >= 0, self.e, -self.e))

    def __pow__(self, k, mod=None):
        if mod is not None or not (type(k) is int and k >= 0):
            raise Unsupported("pow with symbolic/negative exponent")
        r = 1
        for _ in range(k):
            r = r * self
        return r

    def __rpow__(self, base):
        raise Unsupported("pow with symbolic exponent")

    # -- comparisons
    def _cmp(self, o, f, finf):
        oe = SInt.lift(o)
        if oe is None:
            if type(o) is float:
                if _is_inf(o) or o != o:
                    return finf(o)
                return _mk_bool(f(z3.ToReal(self.e), _realval(o)))
            if isinstance(o, SReal):
                return _mk_bool(f(z3.ToReal(self.e), o.e))
            return NotImplemented
        return _mk_bool(f(self.e, oe))

    def __lt__(self, o):
        return self._cmp(o, lambda a, b: a < b, lambda o: o > 0)

    def __le__(self, o):
        return self._cmp(o, lambda a, b: a <= b, lambda o: o > 0)

    def __gt__(self, o):
        return self._cmp(o, lambda a, b: a > b, lambda o: o < 0)

    def __ge__(self, o):
        return self._cmp(o, lambda a, b: a >= b, lambda o: o < 0)

    def __eq__(self, o):
        r = self._cmp(o, lambda a, b: a == b, lambda o: False)
        return False if r is NotImplemented else r

    def __ne__(self, o):
        r = self._cmp(o, lambda a, b: a != b, lambda o: True)
        return True if r is NotImplemented else r

    def __bool__(self):
        return bool(_mk_bool(self.e != 0))

    # constant hash + symbolic __eq__: dictionaries fork on key equality.
    # Sound only when every key that could be equal is also a proxy; harnesses
    # call `keys_guard` on such dictionaries.
    def __hash__(self):
        return 0x5EED

    def __repr__(self):
        return f"SInt({self.e})"

    # -- escapes
    def __index__(self):
        return CTX.concretize(self.e)

    def __int__(self):
        return CTX.concretize(self.e)

    def __float__(self):
        return float(CTX.concretize(self.e))

    def __round__(self, n=None):
        return self

    def __trunc__(self):
        return self

    def __format__(self, spec):
        return f"<{self.e}>"

    def bit_length(self):
        return CTX.concretize(self.e).bit_length()


def _mul_factors(e):
    if z3.is_app_of(e, z3.Z3_OP_MUL):
        r = []
        for c in e.children():
            r.extend(_mul_factors(c))
        return r
    return [e]


def _exact_div(num, den):
    """(a*d*b) // d == a*b for d > 0: cancel a syntactic factor (sound
    algebra; keeps nonlinear `div` out of the solver).  None if no factor."""
    fs = _mul_factors(num)
    ds = _mul_factors(den)
    for d in ds:
        for i, f in enumerate(fs):
            if f.eq(d):
                del fs[i]
                break
        else:
            return None
    if not fs:
        return 1
    r = fs[0]
    for f in fs[1:]:
        r = r * f
    return SInt(r)


class SReal:
    """Symbolic python float, modelled as a mathematical real (z3 Real)."""

    __slots__ = ("e",)

    def __init__(self, e):
        self.e = e

    @property
    def __class__(self):
        return float

    @staticmethod
    def lift(x):
        t = type(x)
        if t is SReal or issubclass(t, SReal):
            return x.e
        if t is SInt:
            return z3.ToReal(x.e)
        if t is bool:
            return z3.RealVal(int(x))
        if t is int:
            return z3.RealVal(x)
        if t is float:
            if _is_inf(x) or x != x:
                return None
            return _realval(x)
        return None

    def _bin(self, o, f):
        oe = SReal.lift(o)
        if oe is None:
            if type(o) is float:
                if o != o:
                    raise Unsupported("arithmetic between symbolic real and nan")
                # finite (op) +-inf: only the sign pattern of +,- is needed
                r = f(0.0, o)
                if r == INF or r == -INF:
                    return r
                raise Unsupported("arithmetic between symbolic real and inf")
            return NotImplemented
        return SReal(f(self.e, oe))

    def __add__(self, o):
        return self._bin(o, lambda a, b: a + b)

    def __radd__(self, o):
        return self._bin(o, lambda a, b: b + a)

    def __sub__(self, o):
        return self._bin(o, lambda a, b: a - b)

    def __rsub__(self, o):
        return self._bin(o, lambda a, b: b - a)

    def __mul__(self, o):
        return self._bin(o, lambda a, b: a * b)

    def __rmul__(self, o):
        return self._bin(o, lambda a, b: b * a)

    def __truediv__(self, o):
        oe = SReal.lift(o)
        if oe is None:
            if type(o) is float and _is_inf(o):
                return 0.0
            return NotImplemented
        if CTX.check(oe == 0) != "unsat":
            raise Unsupported("division by a possibly-zero symbolic real")
        return SReal(self.e / oe)

    def __rtruediv__(self, o):
        oe = SReal.lift(o)
        if oe is None:
            return NotImplemented
        if CTX.check(self.e == 0) != "unsat":
            raise Unsupported("division by a possibly-zero symbolic real")
        return SReal(oe / self.e)

    def __neg__(self):
        return SReal(-self.e)

    def __pos__(self):
        return self

    def __abs__(self):
        return SReal(z3.If(self.e >= 0, self.e, -self.e))

    def __pow__(self, k):
        if type(k) is float and k == 1.0:
            return self
        if type(k) is int and k >= 0:
            r = 1
            for _ in range(k):
                r = r * self
            return r
        raise Unsupported("real pow with non-natural exponent")

    def _cmp(self, o, f, finf):
        oe = SReal.lift(o)
        if oe is None:
            if type(o) is float:
                return finf(o)
            return NotImplemented
        return _mk_bool(f(self.e, oe))

    def __lt__(self, o):
        return self._cmp(o, lambda a, b: a < b, lambda o: o > 0)

    def __le__(self, o):
        return self._cmp(o, lambda a, b: a <= b, lambda o: o > 0)

    def __gt__(self, o):
        return self._cmp(o, lambda a, b: a > b, lambda o: o < 0)

    def __ge__(self, o):
        return self._cmp(o, lambda a, b: a >= b, lambda o: o < 0)

    def __eq__(self, o):
        r = self._cmp(o, lambda a, b: a == b, lambda o: False)
        return False if r is NotImplemented else r

    def __ne__(self, o):
        r = self._cmp(o, lambda a, b: a != b, lambda o: True)
        return True if r is NotImplemented else r

    def __bool__(self):
        return bool(_mk_bool(self.e != 0))

    def __hash__(self):
        return 0x5EED

    def __float__(self):
        raise Unsupported("symbolic real escaped through float()")

    def __int__(self):
        raise Unsupported("symbolic real escaped through int()")

    def __repr__(self):
        return f"SReal({self.e})"

    def __format__(self, spec):
        return f"<{self.e}>"


# ---------------------------------------------------------------------------
# constructors used by harnesses


def sym_int(base, lo=None, hi=None):
    v = z3.Int(CTX.fresh_name(base))
    if lo is not None:
        CTX.assume(v >= lo)
    if hi is not None:
        CTX.assume(v <= hi)
    return SInt(v)


def sym_real(base, lo=None, hi=None, lo_strict=False, hi_strict=False):
    v = z3.Real(CTX.fresh_name(base))
    if lo is not None:
        CTX.assume(v > lo if lo_strict else v >= lo)
    if hi is not None:
        CTX.assume(v < hi if hi_strict else v <= hi)
    return SReal(v)


def sym_bool(base):
    return SBool(z3.Bool(CTX.fresh_name(base)))


def choose(base, n):
    """A solver-chosen python int in range(n): forks over every value."""
    if n <= 0:
        raise PathAbort()
    if n == 1:
        return 0
    v = z3.Int(CTX.fresh_name(base))
    CTX.assume(z3.And(v >= 0, v < n))
    return CTX.concretize(v)


def choose_from(base, seq):
    seq = list(seq)
    return seq[choose(base, len(seq))]


def term(x):
    """z3 term of a proxy or python number (Int where possible)."""
    if isinstance(x, SBool):
        return x.e
    t = type(x)
    if t is SInt or t is SReal or issubclass(t, SReal):
        return x.e
    if t is bool:
        return z3.BoolVal(x)
    if t is int:
        return z3.IntVal(x)
    if t is float:
        return _realval(x)
    if z3.is_expr(x):
        return x
    raise TypeError(f"no z3 term for {x!r}")


def is_sym(x):
    t = type(x)
    return t is SInt or t is SReal or t is SBool or issubclass(t, SReal)


def keys_guard(d):
    """Soundness guard for dictionaries keyed by proxies with constant hash:
    no symbolic key may be able to equal a concrete key (they hash apart)."""
    conc = [k for k in d if type(k) in (int, float)]
    syms = [k for k in d if type(k) in (SInt, SReal)]
    for s in syms:
        for c in conc:
            if _is_inf(c):
                continue
            if CTX.check(term(s) == term(c)) != "unsat":
                raise Unsupported("symbolic dict key may equal a concrete key")


def eval_model(m, x):
    """Evaluate proxy/term under z3 model -> python int / Fraction / bool."""
    if type(x) in (int, float, bool, str) or x is None:
        return x
    e = term(x)
    v = m.eval(e, model_completion=True)
    if z3.is_int_value(v):
        return v.as_long()
    if z3.is_rational_value(v):
        return fractions.Fraction(v.numerator_as_long(), v.denominator_as_long())
    if z3.is_true(v):
        return True
    if z3.is_false(v):
        return False
    if z3.is_algebraic_value(v):
        a = v.approx(20)
        return fractions.Fraction(a.numerator_as_long(), a.denominator_as_long())
    raise ValueError(f"cannot evaluate {v}")


# ---------------------------------------------------------------------------
# exploration driver


class Explore:
    """Result of exploring one harness."""

    def __init__(self):
        self.results = []
        self.paths = 0
        self.aborted = 0
        self.unsupported = {}
        self.budget_hit = False
        self.stats = {}


# wall-clock instant (time.time()) after which every exploration of this process stops and reports a budget hit;
# set by the runner for tiers that have an overall time budget
GLOBAL_DEADLINE = None


def explore(fn, max_paths=100000, deadline_s=None, timeout_ms=2000, max_enum=64):
    """Run ``fn(ctx)`` once per feasible path. Returns an Explore."""
    global CTX
    if GLOBAL_DEADLINE is not None:
        left = GLOBAL_DEADLINE - time.time()
        deadline_s = max(0.0, left) if deadline_s is None else max(0.0, min(deadline_s, left))
    c = Ctx(timeout_ms=timeout_ms, max_enum=max_enum)
    prev = CTX
    CTX = c
    c.work = [[]]
    out = Explore()
    t0 = time.perf_counter()
    try:
        while c.work:
            if out.paths + out.aborted >= max_paths or (
                deadline_s is not None and time.perf_counter() - t0 > deadline_s
            ):
                out.budget_hit = True
                break
            prefix = c.work.pop()
            c.reset(prefix)
            try:
                r = fn(c)
                out.results.append(r)
                out.paths += 1
            except PathAbort:
                out.aborted += 1
            except Unsupported as u:
                out.unsupported[u.reason] = out.unsupported.get(u.reason, 0) + 1
                out.paths += 1
            except Budget:
                out.budget_hit = True
                break
    finally:
        if c._pushed:
            c.solver.pop()
            c._pushed = False
        CTX = prev
    out.stats = dict(
        queries=c.nq,
        sat=c.n_sat,
        unsat=c.n_unsat,
        unknown=c.n_unknown,
        decided=c.n_decided,
        forks=c.n_forks,
        solver_s=round(c.solver_s, 4),
        wall_s=round(time.perf_counter() - t0, 4),
        pending=len(c.work),
    )
    return out
