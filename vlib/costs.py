"""Definitional cost evaluator -- independent of cotengra.

legs(S)    = indices carried by some tensor in S that also appear outside S
             (on another tensor, or in the output), minus removed (sliced /
             projected) indices
flops(L,R) = prod of d over legs(L) | legs(R)
size(P)    = prod of d over legs(P)
totals     = sum / max over the steps, flops and write times the number of
             slices (prod of the sliced sizes; a projected index counts 1)

Sizes may be python ints or symx.SInt; results are z3 terms or ints.
"""

import z3

from .symx import SInt, term


def zterm(x):
    return term(x)


def zmax(a, b):
    if type(a) is int and type(b) is int:
        return max(a, b)
    a, b = zterm(a), zterm(b)
    return z3.If(a >= b, a, b)


def zprod(xs):
    r = 1
    for x in xs:
        if type(x) is SInt:
            x = x.e
        if type(r) is int and r == 1:
            r = x
        elif type(x) is int and x == 1:
            pass
        else:
            r = r * x
    return r


def legs_of(group, inputs, output, removed=()):
    group = set(group)
    res = []
    seen = set()
    n = len(inputs)
    for t in sorted(group):
        for ix in inputs[t]:
            if ix in seen or ix in removed:
                continue
            seen.add(ix)
            outside = ix in output or any(
                ix in inputs[u] for u in range(n) if u not in group
            )
            if outside:
                res.append(ix)
    return res


def root_legs(inputs, output, removed=()):
    return [ix for ix in output if ix not in removed]


def steps_from_ssa(ssa_path, n):
    groups = {i: frozenset([i]) for i in range(n)}
    nxt = n
    steps = []
    for i, j in ssa_path:
        l, r = groups.pop(i), groups.pop(j)
        p = l | r
        groups[nxt] = p
        nxt += 1
        steps.append((p, l, r))
    return steps


def tree_costs(inputs, output, size, steps, sliced=(), projected=(), leaf_full=False):
    """steps: list of (parent, left, right) frozensets in execution order.
    leaf_full: a leaf carries ALL its indices (no single-tensor preprocessing),
    the convention of the hypergraph-based simulators."""
    n = len(inputs)
    removed = set(sliced) | set(projected)
    full = frozenset(range(n))

    def L(g):
        if leaf_full and len(g) == 1:
            (t,) = g
            return [ix for ix in dict.fromkeys(inputs[t]) if ix not in removed]
        if g == full:
            return root_legs(inputs, output, removed)
        return legs_of(g, inputs, output, removed)

    mult = zprod([size[ix] for ix in sliced])
    flops = 0
    write = 0
    mx = None
    per_step = []
    live = 0
    for i in range(n):
        live = live + zprod([size[ix] for ix in L(frozenset([i]))])
    peak = live
    for p, l, r in steps:
        inv = []
        for ix in L(l) + L(r):
            if ix not in inv:
                inv.append(ix)
        f = zprod([size[ix] for ix in inv])
        s = zprod([size[ix] for ix in L(p)])
        per_step.append((p, f, s, sorted(inv), sorted(L(p))))
        flops = flops + f
        write = write + s
        mx = s if mx is None else zmax(mx, s)
        live = live + s
        peak = zmax(peak, live)
        live = live - zprod([size[ix] for ix in L(l)]) - zprod(
            [size[ix] for ix in L(r)]
        )
    return dict(
        flops=mult * flops if not (type(mult) is int and mult == 1) else flops,
        write=mult * write if not (type(mult) is int and mult == 1) else write,
        size=mx,
        peak=peak,
        mult=mult,
        per_step=per_step,
    )
