"""Shape-only arrays with *symbolic* dimensions.

`ShapeArr` carries just a tuple of dimensions (python ints or symx.SInt).  The
real `Contractor` / `extract_contractions` / `slice_arrays` code runs on them
through the public ``implementation=(einsum, tensordot)`` hook, with the two
callables below propagating shapes the way numpy defines them.  Every
consistency requirement numpy would enforce (equal dimensions for a shared
subscript, contracted axes of equal length) is recorded as an obligation.
"""

import autoray

from . import symx


class ShapeArr:
    def __init__(self, shape, log=None):
        self.shape = tuple(shape)
        self.log = log if log is not None else []

    @property
    def ndim(self):
        return len(self.shape)

    def __getitem__(self, sel):
        if not isinstance(sel, tuple):
            sel = (sel,)
        assert len(sel) == len(self.shape), "selector rank mismatch"
        new = []
        for s, d in zip(sel, self.shape):
            if isinstance(s, slice):
                assert s == slice(None)
                new.append(d)
            else:
                # integer index: must be in range -> recorded
                self.log.append(("index", s, d))
        return ShapeArr(new, self.log)


autoray.register_backend(ShapeArr, "shapearr")


def _transpose(x, perm=None):
    if perm is None:
        perm = tuple(reversed(range(x.ndim)))
    assert sorted(perm) == list(range(x.ndim)), ("bad permutation", perm, x.shape)
    return ShapeArr([x.shape[p] for p in perm], x.log)


autoray.register_function("shapearr", "transpose", _transpose)


class Recorder:
    """einsum / tensordot pair that records every call."""

    def __init__(self):
        self.calls = []
        self.mismatch = []  # z3 formulas "these two dims differ" (must be refuted)

    def _same(self, a, b):
        if type(a) is int and type(b) is int:
            if a != b:
                self.mismatch.append(True)
            return
        self.mismatch.append(symx.term(a) != symx.term(b))

    def einsum(self, eq, *ops):
        lhs, out = eq.split("->")
        terms = lhs.split(",")
        assert len(terms) == len(ops), (eq, len(ops))
        dims = {}
        for t, o in zip(terms, ops):
            assert len(t) == o.ndim, ("einsum rank mismatch", eq, o.shape)
            for c, d in zip(t, o.shape):
                if c in dims:
                    self._same(dims[c], d)
                else:
                    dims[c] = d
        assert len(set(out)) == len(out) and all(c in dims for c in out), eq
        res = ShapeArr([dims[c] for c in out], ops[0].log)
        flops = 1
        for d in dims.values():
            flops = flops * d
        self.calls.append(dict(kind="einsum", arg=eq, in_shapes=[o.shape for o in ops], out_shape=res.shape, flops=flops))
        return res

    def tensordot(self, a, b, axes):
        ax_a, ax_b = axes
        assert len(ax_a) == len(ax_b)
        assert len(set(ax_a)) == len(ax_a) and len(set(ax_b)) == len(ax_b)
        for i, j in zip(ax_a, ax_b):
            self._same(a.shape[i], b.shape[j])
        keep_a = [d for i, d in enumerate(a.shape) if i not in ax_a]
        keep_b = [d for j, d in enumerate(b.shape) if j not in ax_b]
        res = ShapeArr(keep_a + keep_b, a.log)
        flops = 1
        for d in keep_a + keep_b + [a.shape[i] for i in ax_a]:
            flops = flops * d
        self.calls.append(dict(kind="tensordot", arg=axes, in_shapes=[a.shape, b.shape], out_shape=res.shape, flops=flops))
        return res
