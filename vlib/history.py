"""History driver for C02 / C04: level-wise exploration of operation
sequences on a ContractionTree.

Level k holds the set of distinct tree states reachable by k operations.  For
every (state, operation) pair the operation is executed symbolically (all RNG
draws, index choices, projected values, option choices are solver variables /
solver-chosen values); every feasible outcome is a new state.  States are
de-duplicated by their full observable content (children, sliced indices,
every cached per-node entry incl. dict orders, caches that exist), so that
"all histories of length <= K" is covered without re-running common prefixes.
The check function is evaluated on every state reached.
"""

import contextlib
import copy
import io
import warnings

from . import stubs, symx


def state_key(tree):
    info = []
    for node in sorted(tree.info, key=lambda n: (len(n), sorted(n))):
        ent = tree.info[node]
        items = []
        for k in sorted(ent):
            v = ent[k]
            if isinstance(v, dict):
                v = tuple(v.items())
            items.append((k, repr(v)))
        info.append((tuple(sorted(node)), tuple(items)))
    return (
        tuple(sorted((tuple(sorted(p)), (tuple(sorted(l)), tuple(sorted(r)))) for p, (l, r) in tree.children.items())),
        tuple((k, v.project) for k, v in tree.sliced_inds.items()),
        tuple(info),
        tuple(sorted(tree.preprocessing.items())),
        bool(tree.contraction_cores),
        (tree._track_flops, tree._track_write, tree._track_size),
        tuple(sorted(map(str, tree.already_optimized))),
    )


# ---------------------------------------------------------------------------
# operations: each takes (tree, env) and returns (new_tree, descriptor)
# env: dict(arrays=..., rng factory, tier)


def _rng(tag):
    return stubs.SymRng(tag)


def op_reconf(tree, env, p):
    size = p.get("subtree_size", 3)
    rng = _rng("rc")
    t = tree.subtree_reconfigure(subtree_size=size, select=p["select"], subtree_search=p["search"], maxiter=p.get("maxiter", 2), seed=rng, inplace=p.get("inplace", False))
    return t, rng


def op_reconf_forest(tree, env, p):
    rng = _rng("rf")
    t = tree.subtree_reconfigure_forest(num_trees=2, num_restarts=1, subtree_maxiter=2, subtree_size=3, parallel=False, seed=rng, inplace=p.get("inplace", False))
    return t, rng


def op_anneal(tree, env, p):
    rng = _rng("sa")
    t = tree.simulated_anneal(tsteps=p.get("tsteps", 1), numiter=p.get("numiter", 1), seed=rng, target_size=p.get("target_size"), slice_mode=p.get("slice_mode", "basic"), inplace=p.get("inplace", False))
    return t, rng


def op_temper(tree, env, p):
    rng = _rng("pt")
    t = tree.parallel_temper(tsteps=1, num_trees=2, numiter=1, parallel=False, seed=rng, inplace=p.get("inplace", False))
    return t, rng


def op_slice_ind(tree, env, p):
    cands = [ix for ix in tree.size_dict if ix not in tree.sliced_inds]
    if not cands:
        raise symx.PathAbort()
    ix = cands[symx.choose("slix", len(cands))]
    p["ix"] = ix
    return tree.remove_ind(ix, inplace=p.get("inplace", False)), None


def op_project_ind(tree, env, p):
    cands = [ix for ix in tree.size_dict if ix not in tree.sliced_inds]
    if not cands:
        raise symx.PathAbort()
    ix = cands[symx.choose("pjix", len(cands))]
    v = symx.choose("pjv", tree.size_dict[ix])
    p["ix"], p["value"] = ix, v
    return tree.remove_ind(ix, project=v, inplace=p.get("inplace", False)), None


def op_restore_ind(tree, env, p):
    cands = list(tree.sliced_inds)
    if not cands:
        raise symx.PathAbort()
    ix = cands[symx.choose("rsix", len(cands))]
    p["ix"] = ix
    return tree.restore_ind(ix, inplace=p.get("inplace", False)), None


def op_unslice_rand(tree, env, p):
    if not tree.sliced_inds:
        raise symx.PathAbort()
    rng = _rng("ur")
    return tree.unslice_rand(seed=rng, inplace=p.get("inplace", False)), rng


def op_unslice_all(tree, env, p):
    return tree.unslice_all(inplace=p.get("inplace", False)), None


def op_slice(tree, env, p):
    rng = _rng("sl")
    kw = {k: p[k] for k in ("target_size", "target_slices", "target_overhead") if k in p}
    try:
        t = tree.slice(max_repeats=p.get("max_repeats", 2), seed=rng, allow_outer=p.get("allow_outer", True), inplace=p.get("inplace", False), **kw)
    except RuntimeError:
        raise symx.PathAbort()
    return t, rng


def op_slice_reconf(tree, env, p):
    # the inner slice_ call takes no seed (global generator): served by the global stub
    try:
        t = tree.slice_and_reconfigure(target_size=p["target_size"], max_repeats=2, reconf_opts=dict(subtree_size=3, maxiter=2), inplace=p.get("inplace", False))
    except RuntimeError:
        raise symx.PathAbort()
    return t, env.get("global_rng")


def op_sort_inds(tree, env, p):
    t = tree.copy() if not p.get("inplace", False) else tree
    t.sort_contraction_indices(priority=p["priority"], make_output_contig=p.get("moc", True), make_contracted_contig=p.get("mcc", True), reset=p.get("reset", True))
    return t, None


def op_reset_inds(tree, env, p):
    t = tree
    t.reset_contraction_indices()
    return t, None


def op_copy(tree, env, p):
    return tree.copy(), None


def op_q_contract(tree, env, p):
    tree.contract(env["arrays"], prefer_einsum=p.get("prefer_einsum", False))
    return tree, None


def op_q_stats(tree, env, p):
    tree.contract_stats()
    tree.total_flops(), tree.total_write(), tree.max_size(), tree.peak_size()
    return tree, None


def op_q_path(tree, env, p):
    tree.get_path()
    tree.get_ssa_path()
    return tree, None


def op_q_print(tree, env, p):
    with contextlib.redirect_stdout(io.StringIO()):
        tree.print_contractions()
    return tree, None


OPS = {
    "reconf": op_reconf,
    "reconf_forest": op_reconf_forest,
    "anneal": op_anneal,
    "temper": op_temper,
    "slice_ind": op_slice_ind,
    "project_ind": op_project_ind,
    "restore_ind": op_restore_ind,
    "unslice_rand": op_unslice_rand,
    "unslice_all": op_unslice_all,
    "slice": op_slice,
    "slice_reconf": op_slice_reconf,
    "sort_inds": op_sort_inds,
    "reset_inds": op_reset_inds,
    "copy": op_copy,
    "q_contract": op_q_contract,
    "q_stats": op_q_stats,
    "q_path": op_q_path,
    "q_print": op_q_print,
}


def op_menu(tier, max_size):
    """(name, params) list.  Parameters that are not listed are solver-chosen
    inside the operation."""
    menu = [
        ("reconf", dict(select="max", search="bfs", subtree_size=3)),
        ("reconf", dict(select="random", search="random", subtree_size=3, inplace=True)),
        ("reconf_forest", dict()),
        ("anneal", dict(tsteps=1, numiter=1)),
        ("anneal", dict(tsteps=1, numiter=1, target_size=max(2, max_size // 2), slice_mode="drift", inplace=True)),
        ("temper", dict()),
        ("slice_ind", dict()),
        ("project_ind", dict(inplace=True)),
        ("restore_ind", dict()),
        ("unslice_rand", dict(inplace=True)),
        ("unslice_all", dict()),
        ("slice", dict(target_size=max(1, max_size // 2))),
        ("slice", dict(target_slices=2, inplace=True)),
        ("slice_reconf", dict(target_size=max(1, max_size // 2))),
        ("sort_inds", dict(priority="flops")),
        ("sort_inds", dict(priority="leaves", inplace=True)),
        ("reset_inds", dict()),
        ("copy", dict()),
        ("q_contract", dict()),
        ("q_stats", dict()),
        ("q_path", dict()),
        # non-inplace call whose result is discarded: the source must stay intact
        ("restore_ind", dict(discard=True)),
        ("unslice_all", dict(discard=True)),
        ("slice_ind", dict(discard=True)),
        ("reconf", dict(select="max", search="bfs", subtree_size=3, discard=True)),
        ("anneal", dict(tsteps=1, numiter=1, discard=True)),
    ]
    if tier != "quick":
        menu += [
            ("reconf", dict(select="min", search="dfs", subtree_size=4)),
            ("anneal", dict(tsteps=1, numiter=2)),
            ("anneal", dict(tsteps=2, numiter=1, target_size=max(2, max_size // 2), slice_mode="basic")),
            ("anneal", dict(tsteps=1, numiter=1, target_size=max(2, max_size // 2), slice_mode="reslice")),
            ("slice", dict(target_overhead=2.0)),
            ("slice", dict(target_size=max(1, max_size // 4), allow_outer=False)),
            ("sort_inds", dict(priority="size", reset=False)),
            ("sort_inds", dict(priority="root", moc=False)),
            ("q_contract", dict(prefer_einsum=True)),
            ("q_print", dict()),
            ("project_ind", dict(discard=True)),
            ("unslice_rand", dict(discard=True)),
            ("slice", dict(target_slices=2, discard=True)),
            ("sort_inds", dict(priority="flops", discard=True)),
            ("copy", dict(discard=True)),
        ]
    return menu


@contextlib.contextmanager
def shadowed_environment(global_rng=True):
    """Module-attribute shadowing needed to keep every random draw symbolic."""
    import cotengra.pathfinders.path_simulated_annealing as SA
    import cotengra.slicer as SL
    import cotengra.utils as U

    saved = (SA.math, SL.log, U.random, U.math)
    g = stubs.GlobalRandomStub()
    try:
        SA.math = stubs.math_proxy_with_symlog()
        SL.log = stubs.sym_log_any
        if global_rng:
            U.random = g
            U.math = stubs.math_proxy_with_symlog()  # GumbelBatchedGenerator: -log(-log(u))
        yield g
    finally:
        SA.math, SL.log, U.random, U.math = saved


def explore_histories(rec, initial, menu, K, check_fn, env, max_states_per_level=80, max_paths_per_op=400, deadline_per_op=20.0, notes=None):
    """initial: list of (tree, history_list).  check_fn(ctx, tree, hist) -> None
    (records obligations in rec).  Returns number of distinct states seen."""
    warnings.simplefilter("ignore")
    seen = {}
    level = []
    for tree, hist in initial:
        k = state_key(tree)
        if k not in seen:
            seen[k] = hist
            level.append((tree, hist))
    total_states = len(level)
    for depth in range(K):
        nxt = []
        for tree0, hist0 in level:
            for name, params in menu:

                def harness(ctx, name=name, params=params, tree0=tree0, hist0=hist0):
                    stubs.LINKS.clear()
                    with shadowed_environment() as g:
                        env["global_rng"] = g._rng
                        p = dict(params)
                        # harness-level isolation must not rely on the code under test: deep copy
                        t0 = copy.deepcopy(tree0)
                        try:
                            tree, rng = OPS[name](t0, env, p)
                            if p.get("discard"):
                                # non-inplace use: the result is dropped and work continues with the
                                # SOURCE tree, which must be untouched
                                tree = t0
                        except (symx.PathAbort, symx.Unsupported, symx.Budget):
                            raise
                        except Exception as e:  # noqa
                            # the properties constrain the tree AFTER a transformation; a
                            # transformation that refuses (raises) is counted, not judged
                            k = f"transformation_raised:{name}:{type(e).__name__}"
                            rec.notes[k] = rec.notes.get(k, 0) + 1
                            return None
                        desc = dict(op=name, params=_jsonable(p))
                        key = state_key(tree)
                        new = key not in seen
                        if new or True:
                            # rng script (for replay) from a model of this path
                            scripts = {}
                            m = None
                            for label, r in (("rng", rng), ("global", g._rng)):
                                if r is not None and r.draws:
                                    if m is None:
                                        m = ctx.model()
                                    if m is not None:
                                        scripts[label] = stubs.script_from_model_linked(m, r)
                            if scripts:
                                desc["scripts"] = scripts
                        hist = hist0 + [desc]
                        # check_fn must not mutate `tree`; it may hand back extra states
                        # (e.g. the same tree with warm caches, history + a query op)
                        extra = check_fn(ctx, tree, hist) or []
                        return [(key, tree, hist)] + [(state_key(t), t, h) for t, h in extra]

                out = symx.explore(harness, max_paths=max_paths_per_op, deadline_s=deadline_per_op)
                rec.add_explore(out)
                for rs in out.results:
                    for key, tree, hist in rs or ():
                        if key not in seen:
                            seen[key] = hist
                            nxt.append((tree, hist))
        total_states += len(nxt)
        if len(nxt) > max_states_per_level:
            rec.notes["history_states_dropped_by_cap"] = rec.notes.get("history_states_dropped_by_cap", 0) + len(nxt) - max_states_per_level
            # keep a diverse subset: round-robin over the kind of the last operations
            groups = {}
            for st in nxt:
                hk = tuple((h["op"], bool(h["params"].get("discard"))) for h in st[1][-2:])
                groups.setdefault(hk, []).append(st)
            picked = []
            keys = sorted(groups, key=str)
            i = 0
            while len(picked) < max_states_per_level and any(groups.values()):
                g = groups[keys[i % len(keys)]]
                if g:
                    picked.append(g.pop(0))
                i += 1
            nxt = picked
        level = nxt
        if not level:
            break
    rec.notes["history_distinct_states"] = rec.notes.get("history_distinct_states", 0) + total_states
    return total_states


def _jsonable(p):
    out = {}
    for k, v in p.items():
        if isinstance(v, (int, float, str, bool)) or v is None:
            out[k] = v
        else:
            out[k] = repr(v)
    return out


# ---------------------------------------------------------------------------
# concrete replay of a recorded history on the real code


def replay_history(tree, hist, arrays=None, observe=None):
    """Re-execute a recorded history with scripted RNGs.  Returns the final
    tree (raises whatever the real code raises).
    observe: what the driver itself did to every state it reached (e.g. contract a copy): repeated after every
    operation, so that effects of those observations on shared state are replayed too"""
    import cotengra.utils as U

    env = {"arrays": arrays}
    if observe is not None:
        observe(tree)
    for h in hist:
        name, p = h["op"], dict(h["params"])
        scripts = h.get("scripts", {})
        rng = stubs.ScriptedRng(scripts.get("rng", []))
        saved = U.random
        if "global" in scripts:
            g = stubs.GlobalRandomStub.__new__(stubs.GlobalRandomStub)
            g._rng = stubs.ScriptedRng(scripts["global"])
            U.random = g
        try:
            res = _replay_op(tree, name, p, rng, env)
            if not p.get("discard"):
                tree = res
        finally:
            U.random = saved
        if observe is not None:
            observe(tree)
    return tree


def _replay_op(tree, name, p, rng, env):
    inplace = p.get("inplace", False)
    if name == "reconf":
        return tree.subtree_reconfigure(subtree_size=p.get("subtree_size", 3), select=p["select"], subtree_search=p["search"], maxiter=p.get("maxiter", 2), seed=rng, inplace=inplace)
    if name == "reconf_forest":
        return tree.subtree_reconfigure_forest(num_trees=2, num_restarts=1, subtree_maxiter=2, subtree_size=3, parallel=False, seed=rng, inplace=inplace)
    if name == "anneal":
        return tree.simulated_anneal(tsteps=p.get("tsteps", 1), numiter=p.get("numiter", 1), seed=rng, target_size=p.get("target_size"), slice_mode=p.get("slice_mode", "basic"), inplace=inplace)
    if name == "temper":
        return tree.parallel_temper(tsteps=1, num_trees=2, numiter=1, parallel=False, seed=rng, inplace=inplace)
    if name == "slice_ind":
        return tree.remove_ind(p["ix"], inplace=inplace)
    if name == "project_ind":
        return tree.remove_ind(p["ix"], project=p["value"], inplace=inplace)
    if name == "restore_ind":
        return tree.restore_ind(p["ix"], inplace=inplace)
    if name == "unslice_rand":
        return tree.unslice_rand(seed=rng, inplace=inplace)
    if name == "unslice_all":
        return tree.unslice_all(inplace=inplace)
    if name == "slice":
        kw = {k: p[k] for k in ("target_size", "target_slices", "target_overhead") if k in p}
        return tree.slice(max_repeats=p.get("max_repeats", 2), seed=rng, allow_outer=p.get("allow_outer", True), inplace=inplace, **kw)
    if name == "slice_reconf":
        return tree.slice_and_reconfigure(target_size=p["target_size"], max_repeats=2, reconf_opts=dict(subtree_size=3, maxiter=2), inplace=inplace)
    if name == "sort_inds":
        t = tree if inplace else tree.copy()
        t.sort_contraction_indices(priority=p["priority"], make_output_contig=p.get("moc", True), make_contracted_contig=p.get("mcc", True), reset=p.get("reset", True))
        return t
    if name == "reset_inds":
        tree.reset_contraction_indices()
        return tree
    if name == "copy":
        return tree.copy()
    if name == "q_contract":
        if env.get("arrays") is not None:
            tree.contract(env["arrays"], prefer_einsum=p.get("prefer_einsum", False))
        return tree
    if name == "q_stats":
        tree.contract_stats()
        tree.total_flops(), tree.total_write(), tree.max_size(), tree.peak_size()
        return tree
    if name == "q_path":
        tree.get_path()
        tree.get_ssa_path()
        return tree
    if name == "q_print":
        with contextlib.redirect_stdout(io.StringIO()):
            tree.print_contractions()
        return tree
    raise ValueError(name)
