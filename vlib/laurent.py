"""Laurent-monomial bookkeeping for exponent stripping (C19).

An array element is  Q = n * mu  where n is a division-free z3 Real polynomial
in the input entries and mu a Laurent monomial in *atoms*.  abs(x) introduces a
fresh atom A with A == |n| on the path condition (no fork); max over an array
forks on the arg-max only; log10(f) is a *formal log* (the monomial of f);
adding / subtracting formal logs multiplies / divides monomials; 10 ** formal
gives the monomial back.  No division and no transcendental function reaches
the solver: 10^(sum log10 f_k) = prod f_k is exact bookkeeping.
"""

from collections import Counter

import autoray
import z3

from . import symx
from .symx import SBool


def mono_mul(a, b, sign=1):
    c = Counter(a)
    for k, v in b.items():
        c[k] += sign * v
    return {k: v for k, v in c.items() if v != 0}


def mono_term(m):
    num = z3.RealVal(1)
    den = z3.RealVal(1)
    for k, v in sorted(m.items()):
        a = z3.Real(k)
        for _ in range(abs(v)):
            if v > 0:
                num = num * a
            else:
                den = den * a
    return num, den


class Q:
    __slots__ = ("n", "m")
    cnt = [0]
    atoms = []
    atom_def = {}  # atom name -> the polynomial whose absolute value it stands for

    def __init__(self, n, m=None):
        self.n = n
        self.m = m or {}

    @staticmethod
    def of(x):
        if isinstance(x, Q):
            return x
        if isinstance(x, bool):
            return Q(z3.RealVal(int(x)))
        if isinstance(x, (int, float)):
            import fractions

            fr = fractions.Fraction(x)
            return Q(z3.Q(fr.numerator, fr.denominator))
        if z3.is_expr(x):
            return Q(x)
        return None

    def __mul__(self, o):
        o = Q.of(o)
        if o is None:
            return NotImplemented
        return Q(self.n * o.n, mono_mul(self.m, o.m))

    __rmul__ = __mul__

    def __truediv__(self, o):
        o = Q.of(o)
        if o is None:
            return NotImplemented
        if z3.is_const(o.n) and o.n.decl().name().startswith("abs"):
            return Q(self.n, mono_mul(mono_mul(self.m, o.m, -1), {o.n.decl().name(): 1}, -1))
        if z3.is_rational_value(o.n) and not o.m:
            return Q(self.n / o.n, self.m)
        raise symx.Unsupported("division by something that is not a normalisation factor")

    def __neg__(self):
        return Q(-self.n, self.m)

    def _is_zero(self):
        return z3.is_rational_value(self.n) and self.n.as_fraction() == 0

    def __add__(self, o):
        o = Q.of(o)
        if o is None:
            return NotImplemented
        if o._is_zero():
            return self
        if self._is_zero():
            return o
        if self.m == o.m:
            return Q(self.n + o.n, self.m)
        # different scale monomials: bring to the common denominator-free form
        # n1*mu1 + n2*mu2 = (n1 * mu1/mu + n2 * mu2/mu) * mu  with mu = mu1 "min" mu2
        keys = set(self.m) | set(o.m)
        mu = {k: min(self.m.get(k, 0), o.m.get(k, 0)) for k in keys}
        mu = {k: v for k, v in mu.items() if v != 0}
        r1 = mono_mul(self.m, mu, -1)
        r2 = mono_mul(o.m, mu, -1)
        n1, d1 = mono_term(r1)
        n2, d2 = mono_term(r2)
        # r1, r2 have non-negative exponents by construction (d == 1)
        return Q(self.n * n1 + o.n * n2, mu)

    __radd__ = __add__

    def __sub__(self, o):
        o = Q.of(o)
        if o is None:
            return NotImplemented
        return self + (-o)

    def __abs__(self):
        Q.cnt[0] += 1
        name = f"abs{Q.cnt[0]}"
        A = z3.Real(name)
        symx.CTX.assume(A == z3.If(self.n >= 0, self.n, -self.n))
        Q.atoms.append(A)
        Q.atom_def[name] = self.n
        return Q(A, self.m)

    def _cmp(self, o, f):
        o = Q.of(o)
        if self.m != o.m:
            raise symx.Unsupported("comparison of values with different scale monomials")
        r = symx._mk_bool(f(self.n, o.n))
        # arg-max comparisons between |.| atoms: fork blindly (no feasibility query)
        return symx.SBlindBool(r.e) if isinstance(r, SBool) else r

    def __gt__(self, o):
        return self._cmp(o, lambda a, b: a > b)

    def __lt__(self, o):
        return self._cmp(o, lambda a, b: a < b)

    def __ge__(self, o):
        return self._cmp(o, lambda a, b: a >= b)

    def __le__(self, o):
        return self._cmp(o, lambda a, b: a <= b)

    def __float__(self):
        # only used by `check_zero`: float(factor) == 0.0
        if bool(symx._mk_bool(self.n == 0)):
            return 0.0
        return 1.0

    def log10(self):
        if not (z3.is_const(self.n) and self.n.decl().name().startswith("abs")):
            raise symx.Unsupported("log10 of something that is not a normalisation factor")
        return FLog(mono_mul(self.m, {self.n.decl().name(): 1}))

    def __hash__(self):
        return 7

    def __repr__(self):
        return f"Q({self.n}, {self.m})"


class FLog:
    """formal log10 of a positive Laurent monomial in the atoms"""

    def __init__(self, m):
        self.m = m

    def __add__(self, o):
        if isinstance(o, FLog):
            return FLog(mono_mul(self.m, o.m))
        if isinstance(o, (int, float)) and o == 0:
            return self
        return NotImplemented

    __radd__ = __add__

    def __sub__(self, o):
        if isinstance(o, FLog):
            return FLog(mono_mul(self.m, o.m, -1))
        if isinstance(o, (int, float)) and o == 0:
            return self
        return NotImplemented

    def __rsub__(self, o):
        if isinstance(o, (int, float)) and o == 0:
            return FLog(mono_mul({}, self.m, -1))
        return NotImplemented

    def __rpow__(self, base):
        if base != 10:
            return NotImplemented
        num, den = mono_term(self.m)
        # represent as Q with n = 1 and monomial m
        return Q(z3.RealVal(1), dict(self.m))

    def _cmp(self, o, gt, strict):
        om = o.m if isinstance(o, FLog) else ({} if (isinstance(o, (int, float)) and o == 0) else None)
        if om is None:
            return NotImplemented
        d = mono_mul(self.m, om, -1)
        if not d:
            return not strict
        num, den = mono_term(d)
        # monomial(d) > 1  <=>  num > den  (atoms are positive)
        if gt:
            c = num > den if strict else num >= den
        else:
            c = num < den if strict else num <= den
        r = symx._mk_bool(c)
        return symx.SBlindBool(r.e) if isinstance(r, SBool) else r

    def __gt__(self, o):
        return self._cmp(o, True, True)

    def __ge__(self, o):
        return self._cmp(o, True, False)

    def __lt__(self, o):
        return self._cmp(o, False, True)

    def __le__(self, o):
        return self._cmp(o, False, False)

    def __repr__(self):
        return f"FLog({self.m})"


autoray.register_backend(Q, "numpy")
autoray.register_backend(FLog, "numpy")


def reset():
    Q.cnt[0] = 0
    Q.atoms = []
    Q.atom_def = {}
