"""symarr -- symbolic tensors on the *real numpy path*.

Arrays are ordinary ``numpy.ndarray(dtype=object)`` whose elements are z3 Real
terms.  cotengra's own execution code (`Contractor`, its matmul-based einsum /
tensordot, numpy's einsum / tensordot through autoray) runs unchanged on them
and produces arrays of polynomials; equality with the independently built
dense reference polynomial is one z3 query over the reals.
"""

import itertools

import autoray
import numpy as np
import z3

# numpy returns a bare element (not a 0-d array) from full reductions of
# object arrays; without this autoray would look for a backend called "z3".
autoray.register_backend(z3.ArithRef, "numpy")
autoray.register_backend(z3.RatNumRef, "numpy")
autoray.register_backend(z3.IntNumRef, "numpy")



def _patch_z3_numpy_interop():
    """z3's arithmetic operators raise on numpy operands instead of returning
    NotImplemented.  With float data numpy scalars and 0-d arrays mix freely, so
    make z3 terms behave the same: unwrap 0-d object arrays, defer to numpy's
    reflected (broadcasting) operator for n-d arrays.  Harness artefact only."""
    if getattr(z3.ArithRef, "_verif_patched", False):
        return
    for name in ("__add__", "__radd__", "__sub__", "__rsub__", "__mul__", "__rmul__", "__truediv__", "__rtruediv__"):
        orig = getattr(z3.ArithRef, name)

        def wrapped(self, other, _orig=orig):
            if isinstance(other, np.ndarray):
                if other.ndim == 0:
                    other = other.item()
                else:
                    return NotImplemented
            elif isinstance(other, np.generic):
                other = other.item()
            return _orig(self, other)

        setattr(z3.ArithRef, name, wrapped)
    z3.ArithRef._verif_patched = True


_patch_z3_numpy_interop()

_ZERO = z3.RealVal(0)
_ONE = z3.RealVal(1)


def sym_array(name, shape):
    a = np.empty(shape, dtype=object)
    for idx in np.ndindex(*shape):
        a[idx] = z3.Real(f"{name}[{','.join(map(str, idx))}]")
    return a


def sym_arrays(inputs, size, prefix="x"):
    return [
        sym_array(f"{prefix}{k}", tuple(size[i] for i in t))
        for k, t in enumerate(inputs)
    ]


def dense_einsum(inputs, output, size, arrays, fixed=None):
    """Reference value: out[o] = sum_{summed} prod_t arrays[t][...]; never
    touches cotengra.  ``fixed``: {index: value} projected indices (removed
    from the output if present)."""
    fixed = dict(fixed or {})
    labels = []
    for t in inputs:
        for c in t:
            if c not in labels:
                labels.append(c)
    out_inds = [c for c in output if c not in fixed]
    summed = [c for c in labels if c not in out_inds and c not in fixed]
    out = np.empty(tuple(size[c] for c in out_inds), dtype=object)
    ranges = [range(size[c]) for c in summed]
    for oidx in np.ndindex(*out.shape):
        asg = dict(fixed)
        asg.update(zip(out_inds, oidx))
        tot = None
        for sidx in itertools.product(*ranges):
            asg.update(zip(summed, sidx))
            t = None
            for term, arr in zip(inputs, arrays):
                e = arr[tuple(asg[c] for c in term)]
                t = e if t is None else t * e
            if t is None:
                t = _ONE
            tot = t if tot is None else tot + t
        out[oidx] = _ZERO if tot is None else tot
    return out


def as_obj_array(x):
    if isinstance(x, np.ndarray):
        return x
    a = np.empty((), dtype=object)
    a[()] = x
    return a


def lift_real(e):
    if z3.is_expr(e):
        if e.sort() == z3.IntSort():
            return z3.ToReal(e)
        return e
    if isinstance(e, (int, float, np.integer, np.floating)):
        import fractions

        fr = fractions.Fraction(e)
        return z3.Q(fr.numerator, fr.denominator)
    raise TypeError(f"unexpected array element {type(e)}: {e!r}")


def diff_formula(out, ref):
    """z3 formula 'some entry differs' (or True/False python bool on shape
    mismatch / trivially equal)."""
    out = as_obj_array(out)
    ref = as_obj_array(ref)
    if out.shape != ref.shape:
        return True
    terms = []
    for idx in np.ndindex(*ref.shape):
        a = lift_real(out[idx])
        b = lift_real(ref[idx])
        if a.eq(b):
            continue
        terms.append(a != b)
    if not terms:
        return False
    return z3.Or(terms) if len(terms) > 1 else terms[0]


def model_arrays(model, arrays, as_float=True):
    """Concrete numpy float arrays from a model (unassigned entries -> small
    distinct primes so that coincidences are unlikely in the replay)."""
    res = []
    filler = iter(_primes())
    for a in arrays:
        c = np.empty(a.shape, dtype=float)
        for idx in np.ndindex(*a.shape):
            v = model.eval(a[idx], model_completion=False)
            if z3.is_rational_value(v):
                c[idx] = v.numerator_as_long() / v.denominator_as_long()
            elif z3.is_algebraic_value(v):
                ap = v.approx(12)
                c[idx] = ap.numerator_as_long() / ap.denominator_as_long()
            else:
                c[idx] = next(filler)
        res.append(c)
    return res


def _primes():
    yield from (2.0, 3.0, 5.0, 7.0, 11.0, 13.0, 17.0, 19.0, 23.0, 29.0, 31.0, 37.0)
    k = 41
    while True:
        if all(k % p for p in range(2, int(k**0.5) + 1)):
            yield float(k)
        k += 2


def generic_arrays(inputs, size, seed=0):
    """Concrete 'generic position' float arrays for replays: distinct values
    so that a transposition or wrong index shows up."""
    rng = np.random.default_rng(seed)
    return [
        rng.uniform(0.5, 1.5, size=tuple(size[c] for c in t)) for t in inputs
    ]


def np_reference(inputs, output, size, arrays, fixed=None):
    """numpy-float version of dense_einsum (for replays)."""
    fixed = dict(fixed or {})
    labels = []
    for t in inputs:
        for c in t:
            if c not in labels:
                labels.append(c)
    out_inds = [c for c in output if c not in fixed]
    summed = [c for c in labels if c not in out_inds and c not in fixed]
    out = np.zeros(tuple(size[c] for c in out_inds), dtype=float)
    ranges = [range(size[c]) for c in summed]
    for oidx in np.ndindex(*out.shape):
        asg = dict(fixed)
        asg.update(zip(out_inds, oidx))
        tot = 0.0
        for sidx in itertools.product(*ranges):
            asg.update(zip(summed, sidx))
            t = 1.0
            for term, arr in zip(inputs, arrays):
                t = t * arr[tuple(asg[c] for c in term)]
            tot += t
        out[oidx] = tot
    return out
