"""Environment stubs.  Every stub returns an *arbitrary value of its documented
range* as a fresh solver variable; each is listed in the evidence of the checks
that use it."""

import random as _random

import z3

from . import symx
from .symx import SInt, SReal


class SymRng(_random.Random):
    """random.Random whose every draw is a fresh solver variable.

    random()            -> SReal in [0, 1)
    randint/randrange   -> SInt in the range (concretised lazily by its use)
    choice/choices/sample/shuffle -> solver-chosen positions (forked)
    uniform(a, b)       -> SReal in [a, b]   (mode 'real')
                           or a solver-chosen member of a 3-point grid (mode 'grid')
    gauss/normalvariate -> unconstrained SReal;  expovariate -> SReal > 0
    """

    def __init__(self, tag="rng", uniform_mode="real", log=None):
        super().__init__(0)
        self.tag = tag
        self.uniform_mode = uniform_mode
        self.draws = []  # (kind, proxy-or-value) in order, for replay

    def _rec(self, kind, v):
        self.draws.append((kind, v))
        return v

    def random(self):
        return self._rec("random", symx.sym_real(self.tag + "_u", 0, 1, hi_strict=True))

    def randint(self, a, b):
        if type(a) is int and type(b) is int and b - a <= 64:
            return self._rec("randint", a + symx.choose(self.tag + "_i", b - a + 1))
        return self._rec("randint", symx.sym_int(self.tag + "_i", a, b))

    def randrange(self, start, stop=None, step=1):
        if stop is None:
            start, stop = 0, start
        assert step == 1
        return self.randint(start, stop - 1)

    def getrandbits(self, k):
        return self._rec("getrandbits", symx.sym_int(self.tag + "_bits", 0, (1 << k) - 1))

    def choice(self, seq):
        seq = list(seq)
        if not seq:
            raise IndexError("Cannot choose from an empty sequence")
        return seq[self._rec("choice", symx.choose(self.tag + "_c", len(seq)))]

    def choices(self, population, weights=None, *, cum_weights=None, k=1):
        population = list(population)
        if weights is not None:
            allowed = [i for i, w in enumerate(weights) if w > 0]
        else:
            allowed = list(range(len(population)))
        if not allowed:
            raise ValueError("Total of weights must be greater than zero")
        return [population[allowed[self._rec("choices", symx.choose(self.tag + "_cs", len(allowed)))]] for _ in range(k)]

    def sample(self, population, k, *, counts=None):
        pool = list(population)
        out = []
        for _ in range(k):
            out.append(pool.pop(self._rec("sample", symx.choose(self.tag + "_s", len(pool)))))
        return out

    def shuffle(self, x):
        pool = list(x)
        for i in range(len(x)):
            x[i] = pool.pop(self._rec("shuffle", symx.choose(self.tag + "_sh", len(pool))))

    def uniform(self, a, b):
        if self.uniform_mode == "grid":
            grid = [a, (a + b) / 2, b]
            return grid[self._rec("uniform", symx.choose(self.tag + "_ug", 3))]
        return self._rec("uniform", symx.sym_real(self.tag + "_un", a, b))

    def gauss(self, mu=0.0, sigma=1.0):
        return self._rec("gauss", symx.sym_real(self.tag + "_g"))

    normalvariate = gauss

    def expovariate(self, lambd=1.0):
        return self._rec("expo", symx.sym_real(self.tag + "_e", 0, None, lo_strict=True))

    def seed(self, *a, **k):
        return None

    def getstate(self):
        return ("symrng",)

    def setstate(self, s):
        return None


class ScriptedRng(_random.Random):
    """Concrete replay of a SymRng run: returns the recorded model values in
    order (for counterexample replay on the real code)."""

    def __init__(self, script):
        super().__init__(0)
        self.script = list(script)
        self.pos = 0

    def _next(self, kind):
        if self.pos >= len(self.script):
            raise RuntimeError("scripted rng exhausted")
        k, v = self.script[self.pos]
        self.pos += 1
        if k != kind:
            raise RuntimeError(f"scripted rng divergence: wanted {kind}, script has {k}")
        return v

    def random(self):
        return float(self._next("random"))

    def randint(self, a, b):
        return int(self._next("randint"))

    def randrange(self, start, stop=None, step=1):
        return int(self._next("randint"))

    def choice(self, seq):
        return list(seq)[int(self._next("choice"))]

    def choices(self, population, weights=None, *, cum_weights=None, k=1):
        population = list(population)
        allowed = [i for i, w in enumerate(weights) if w > 0] if weights is not None else list(range(len(population)))
        return [population[allowed[int(self._next("choices"))]] for _ in range(k)]

    def sample(self, population, k, *, counts=None):
        pool = list(population)
        return [pool.pop(int(self._next("sample"))) for _ in range(k)]

    def shuffle(self, x):
        pool = list(x)
        for i in range(len(x)):
            x[i] = pool.pop(int(self._next("shuffle")))

    def uniform(self, a, b):
        v = self._next("uniform")
        if isinstance(v, int) and not isinstance(v, bool) and v in (0, 1, 2) and False:
            return [a, (a + b) / 2, b][v]
        return float(v)

    def gauss(self, mu=0.0, sigma=1.0):
        return float(self._next("gauss"))

    normalvariate = gauss

    def expovariate(self, lambd=1.0):
        return float(self._next("expo"))


def script_from_model(model, rng, uniform_grid=None):
    """Turn the recorded draws of a SymRng into concrete values under a model."""
    out = []
    for kind, v in rng.draws:
        if symx.is_sym(v):
            val = symx.eval_model(model, v)
            val = float(val) if kind in ("random", "uniform", "gauss", "expo") else int(val)
        else:
            val = v
        out.append((kind, val))
    return out


class SymGumbel:
    """Stand-in for cotengra.utils.GumbelBatchedGenerator: the support of the
    Gumbel distribution is the whole real line, so each call is an arbitrary
    real."""

    instances = []

    def __init__(self, seed=None):
        self.draws = []
        SymGumbel.instances.append(self)

    def __call__(self):
        v = symx.sym_real("gumbel")
        self.draws.append(v)
        return v


class ScriptedGumbel:
    script = []
    pos = 0

    def __init__(self, seed=None):
        pass

    def __call__(self):
        v = ScriptedGumbel.script[ScriptedGumbel.pos]
        ScriptedGumbel.pos += 1
        return float(v)
