"""Environment stubs.  Every stub returns an *arbitrary value of its documented
range* as a fresh solver variable; each is listed in the evidence of the checks
that use it."""

import random as _random

import z3

from . import symx
from .symx import SInt, SReal


class SymRng(_random.Random):
    """random.Random whose every draw is a fresh solver variable.

    random()            -> SReal in [0, 1)
    randint/randrange   -> SInt in the range (concretised lazily by its use)
    choice/choices/sample/shuffle -> solver-chosen positions (forked)
    uniform(a, b)       -> SReal in [a, b]   (mode 'real')
                           or a solver-chosen member of a 3-point grid (mode 'grid')
    gauss/normalvariate -> unconstrained SReal;  expovariate -> SReal > 0
    """

    RANDOM_GRID = (0.03, 0.37, 0.62, 0.96)
    GAUSS_GRID = (-1.3, 0.0, 0.9)
    EXPO_GRID = (0.05, 0.8, 3.0)

    def __init__(self, tag="rng", uniform_mode="real", log=None, max_draws=None, random_mode="real", free_draws=None):
        """random_mode='grid': random() / gauss() / expovariate() return a solver-chosen member of a small
        fixed grid as a plain float (for code that pushes the draw through math.log / float())"""
        super().__init__(0)
        SymRng.instances.append(self)
        self.random_mode = random_mode
        self.free_draws = free_draws
        self._tail_rng = None
        if free_draws is not None and max_draws is None:
            self.MAX_DRAWS = 200000
        if max_draws is not None:
            self.MAX_DRAWS = max_draws
        self.tag = tag
        self.uniform_mode = uniform_mode
        self.draws = []  # (kind, proxy-or-value) in order, for replay

    MAX_DRAWS = 300
    TAIL_STREAMS = 4
    instances = []  # every generator created since a harness last reset this list (for scripted replays)

    def _tail(self):
        """free_draws=K: the first K draws of a path are individually solver-chosen; every later draw comes from one of
        TAIL_STREAMS ordinary pseudo-random streams, the stream being solver-chosen (for code that draws hundreds of numbers)"""
        if self.free_draws is None or len(self.draws) < self.free_draws:
            return None
        if self._tail_rng is None:
            self._tail_rng = _random.Random(1000 + symx.choose(self.tag + "_tailstream", self.TAIL_STREAMS))
        return self._tail_rng

    def _rec(self, kind, v):
        self.draws.append((kind, v))
        if len(self.draws) > self.MAX_DRAWS:
            # e.g. `while j == i: j = rng.randint(...)`: the branch that never leaves the
            # loop has probability zero; close it instead of following it forever
            raise symx.Unsupported("random-draw budget of one path exhausted (probability-zero rejection loop)")
        return v

    def random(self):
        t = self._tail()
        if t is not None:
            return self._rec("random", t.random())
        if self.random_mode == "grid":
            return self._rec("random", self.RANDOM_GRID[symx.choose(self.tag + "_ugrid", len(self.RANDOM_GRID))])
        return self._rec("random", symx.sym_real(self.tag + "_u", 0, 1, hi_strict=True))

    def randint(self, a, b):
        t = self._tail()
        if t is not None:
            return self._rec("randint", t.randint(a, b))
        if type(a) is int and type(b) is int and b - a <= 64:
            return self._rec("randint", a + symx.choose(self.tag + "_i", b - a + 1))
        return self._rec("randint", symx.sym_int(self.tag + "_i", a, b))

    def randrange(self, start, stop=None, step=1):
        if stop is None:
            start, stop = 0, start
        assert step == 1
        return self.randint(start, stop - 1)

    def getrandbits(self, k):
        t = self._tail()
        if t is not None:
            return self._rec("getrandbits", t.getrandbits(k))
        return self._rec("getrandbits", symx.sym_int(self.tag + "_bits", 0, (1 << k) - 1))

    def choice(self, seq):
        seq = list(seq)
        if not seq:
            raise IndexError("Cannot choose from an empty sequence")
        t = self._tail()
        if t is not None:
            return seq[self._rec("choice", t.randrange(len(seq)))]
        return seq[self._rec("choice", symx.choose(self.tag + "_c", len(seq)))]

    def choices(self, population, weights=None, *, cum_weights=None, k=1):
        population = list(population)
        if weights is not None:
            allowed = [i for i, w in enumerate(weights) if w > 0]
        else:
            allowed = list(range(len(population)))
        if not allowed:
            raise ValueError("Total of weights must be greater than zero")
        out = []
        for _ in range(k):
            t = self._tail()
            j = t.randrange(len(allowed)) if t is not None else symx.choose(self.tag + "_cs", len(allowed))
            out.append(population[allowed[self._rec("choices", j)]])
        return out

    def sample(self, population, k, *, counts=None):
        pool = list(population)
        out = []
        for _ in range(k):
            t = self._tail()
            out.append(pool.pop(self._rec("sample", t.randrange(len(pool)) if t is not None else symx.choose(self.tag + "_s", len(pool)))))
        return out

    def shuffle(self, x):
        pool = list(x)
        for i in range(len(x)):
            t = self._tail()
            x[i] = pool.pop(self._rec("shuffle", t.randrange(len(pool)) if t is not None else symx.choose(self.tag + "_sh", len(pool))))

    def uniform(self, a, b):
        t = self._tail()
        if t is not None:
            return self._rec("uniform", t.uniform(a, b))
        if self.uniform_mode == "grid":
            grid = [a, (a + b) / 2, b]
            return self._rec("uniform", grid[symx.choose(self.tag + "_ug", 3)])
        return self._rec("uniform", symx.sym_real(self.tag + "_un", a, b))

    def gauss(self, mu=0.0, sigma=1.0):
        t = self._tail()
        if t is not None:
            return self._rec("gauss", t.gauss(mu, sigma))
        if self.random_mode == "grid":
            return self._rec("gauss", mu + sigma * self.GAUSS_GRID[symx.choose(self.tag + "_ggrid", len(self.GAUSS_GRID))])
        return self._rec("gauss", symx.sym_real(self.tag + "_g"))

    normalvariate = gauss

    def expovariate(self, lambd=1.0):
        t = self._tail()
        if t is not None:
            return self._rec("expo", t.expovariate(lambd))
        if self.random_mode == "grid":
            return self._rec("expo", self.EXPO_GRID[symx.choose(self.tag + "_egrid", len(self.EXPO_GRID))] / lambd)
        return self._rec("expo", symx.sym_real(self.tag + "_e", 0, None, lo_strict=True))

    def seed(self, *a, **k):
        return None

    def getstate(self):
        return ("symrng",)

    def setstate(self, s):
        return None


class ScriptedRng(_random.Random):
    """Concrete replay of a SymRng run: returns the recorded model values in
    order (for counterexample replay on the real code)."""

    def __init__(self, script):
        super().__init__(0)
        self.script = list(script)
        self.pos = 0

    def _next(self, kind):
        if self.pos >= len(self.script):
            raise RuntimeError("scripted rng exhausted")
        k, v = self.script[self.pos]
        self.pos += 1
        if k != kind:
            raise RuntimeError(f"scripted rng divergence: wanted {kind}, script has {k}")
        return v

    def random(self):
        return float(self._next("random"))

    def randint(self, a, b):
        return int(self._next("randint"))

    def randrange(self, start, stop=None, step=1):
        return int(self._next("randint"))

    def choice(self, seq):
        return list(seq)[int(self._next("choice"))]

    def choices(self, population, weights=None, *, cum_weights=None, k=1):
        population = list(population)
        allowed = [i for i, w in enumerate(weights) if w > 0] if weights is not None else list(range(len(population)))
        return [population[allowed[int(self._next("choices"))]] for _ in range(k)]

    def sample(self, population, k, *, counts=None):
        pool = list(population)
        return [pool.pop(int(self._next("sample"))) for _ in range(k)]

    def shuffle(self, x):
        pool = list(x)
        for i in range(len(x)):
            x[i] = pool.pop(int(self._next("shuffle")))

    def uniform(self, a, b):
        v = self._next("uniform")
        if isinstance(v, int) and not isinstance(v, bool) and v in (0, 1, 2) and False:
            return [a, (a + b) / 2, b][v]
        return float(v)

    def gauss(self, mu=0.0, sigma=1.0):
        return float(self._next("gauss"))

    normalvariate = gauss

    def expovariate(self, lambd=1.0):
        return float(self._next("expo"))


def script_from_model(model, rng, uniform_grid=None):
    """Turn the recorded draws of a SymRng into concrete values under a model."""
    out = []
    for kind, v in rng.draws:
        if symx.is_sym(v):
            val = symx.eval_model(model, v)
            val = float(val) if kind in ("random", "uniform", "gauss", "expo") else int(val)
        else:
            val = v
        out.append((kind, val))
    return out


# range of log(-log(u)) for u a double in [2^-53, 1 - 2^-53] (random.random()
# returns multiples of 2^-53; u == 0 has probability 2^-53 and raises in the
# real code, it is outside the stub)
GUMBEL_HI = 36.75  # -log(-log(1 - 2^-53)) = 36.74
GUMBEL_LO = 3.61  # log(-log(2^-53)) = 3.604


class SymGumbel:
    """Stand-in for cotengra.utils.GumbelBatchedGenerator: the support of the
    Gumbel distribution over doubles is [-3.61, 36.75]; each call is an arbitrary
    real in that range."""

    instances = []
    log = []  # every draw of every instance, in call order (ScriptedGumbel replays this sequence)

    def __init__(self, seed=None):
        self.draws = []
        SymGumbel.instances.append(self)

    def __call__(self):
        # -log(-log(u)) for a double u in [2^-53, 1-2^-53]
        v = symx.sym_real("gumbel", -GUMBEL_LO, GUMBEL_HI)
        self.draws.append(v)
        SymGumbel.log.append(v)
        return v


class ScriptedGumbel:
    script = []
    pos = 0

    def __init__(self, seed=None):
        pass

    def __call__(self):
        if ScriptedGumbel.pos >= len(ScriptedGumbel.script):
            raise RuntimeError("scripted gumbel exhausted")
        v = ScriptedGumbel.script[ScriptedGumbel.pos]
        ScriptedGumbel.pos += 1
        return float(v)


# ---------------------------------------------------------------------------
# logs of uniform draws


class _InnerLog:
    """log(u) for a uniform draw u in (0,1): only ever negated and fed to a
    second log (Gumbel trick) in the code under test."""

    def __init__(self, u):
        self.u = u

    def __neg__(self):
        return _NegInnerLog(self.u)


class _NegInnerLog:
    def __init__(self, u):
        self.u = u


LINKS = {}  # id(z3 expr of the uniform draw) -> ("exp", lu) or ("gumbel", g)


def sym_log(x):
    """math.log stand-in.
    * log(u), u a symbolic uniform draw: fresh real <= 0 (recorded so that a
      replay can use u = exp(value));
    * log(-log(u)): an arbitrary real (support of the Gumbel distribution);
    * concrete argument: the real math.log."""
    import math

    if isinstance(x, _NegInnerLog):
        g = symx.sym_real("loglog", -GUMBEL_HI, GUMBEL_LO)
        LINKS[x.u.e.get_id()] = ("gumbel", g)
        return g
    if type(x) is SReal:
        return _InnerLogReal(x)
    if type(x) is SInt:
        return math.log(int(x))
    return math.log(x)


class _InnerLogReal(SReal):
    """log(u) as a fresh real <= 0 that also remembers u (so that -log(u) can
    be recognised by a following log)."""

    __slots__ = ("u",)

    def __init__(self, u):
        lu = symx.sym_real("logu", -GUMBEL_HI, 0)
        SReal.__init__(self, lu.e)
        self.u = u
        LINKS[u.e.get_id()] = ("exp", lu)

    def __neg__(self):
        r = _NegLogReal(-self.e)
        r.u = self.u
        return r


class _NegLogReal(SReal):
    __slots__ = ("u",)


def sym_log2(x):
    import math

    if type(x) is _NegLogReal or isinstance(x, _NegInnerLog):
        return sym_log_neglog(x)
    return math.log2(x)


def sym_log_neglog(x):
    g = symx.sym_real("loglog", -GUMBEL_HI, GUMBEL_LO)
    LINKS[x.u.e.get_id()] = ("gumbel", g)
    return g


def sym_log_any(x):
    """log stand-in used for module-level `log` names (slicer): handles
    log(u) and log(-log(u))."""
    import math

    if type(x) is _NegLogReal:
        return sym_log_neglog(x)
    if type(x) is SReal:
        return _InnerLogReal(x)
    if type(x) is SInt:
        return math.log(int(x))
    return math.log(x)


def math_proxy_with_symlog():
    import math
    import types

    m = types.ModuleType("math_symlog")
    m.__dict__.update(math.__dict__)
    m.log = sym_log_any
    return m


def script_from_model_linked(model, rng):
    """like script_from_model, but a uniform draw that only entered the
    computation through log(u) / log(-log(u)) is reconstructed from the model
    value of that logarithm."""
    import math

    out = []
    for kind, v in rng.draws:
        if kind == "random" and symx.is_sym(v) and v.e.get_id() in LINKS:
            how, var = LINKS[v.e.get_id()]
            x = float(symx.eval_model(model, var))
            if how == "exp":
                val = math.exp(x)
            else:
                val = math.exp(-math.exp(min(x, 50.0)))
            val = min(max(val, 1e-300), 1 - 1e-16)
        elif symx.is_sym(v):
            val = symx.eval_model(model, v)
            val = float(val) if kind in ("random", "uniform", "gauss", "expo") else int(val)
        else:
            val = v
        out.append((kind, val))
    return out


class GlobalRandomStub:
    """Stand-in for the `random` module as seen from cotengra.utils: every
    module-level draw is a fresh solver variable."""

    Random = _random.Random

    def __init__(self, tag="grng"):
        self._rng = SymRng(tag)

    def __getattr__(self, name):
        return getattr(self._rng, name)
