"""Skeleton (network shape) and tree enumeration -- the only enumerated
dimension of the checks.  Everything here is exhaustive inside its bound.

A skeleton is (inputs, output): inputs a tuple of strings over 'a','b',...;
it is generated from restricted growth strings over the index *positions*, so
every equality pattern between positions (repeated index inside a tensor,
hyper index, batch index, dangling index, scalar tensor, disconnected parts)
appears exactly once up to renaming of labels.
"""

import itertools
import math

LETTERS = "abcdefghijklmnopqrstuvwxyz"


def rgs(n, kmax=None):
    """All restricted growth strings of length n (set partitions of positions)."""
    if n == 0:
        yield ()
        return

    def rec(prefix, mx):
        if len(prefix) == n:
            yield tuple(prefix)
            return
        for v in range(mx + 2):
            if kmax is not None and v >= kmax:
                break
            prefix.append(v)
            yield from rec(prefix, max(mx, v))
            prefix.pop()

    yield from rec([], -1)


def bell(n):
    b = [1]
    for i in range(n):
        b.append(sum(math.comb(i, k) * b[k] for k in range(i + 1)))
    return b[n]


def _canon(inputs, output):
    """Canonical form under renaming of labels (first-appearance order)."""
    m = {}
    for t in inputs:
        for c in t:
            m.setdefault(c, LETTERS[len(m)])
    for c in output:
        m.setdefault(c, LETTERS[len(m)])
    return tuple("".join(m[c] for c in t) for t in inputs), "".join(
        m[c] for c in output
    )


def canon_perm(inputs, output):
    """Canonical form under renaming AND permutation of tensors."""
    best = None
    for p in itertools.permutations(range(len(inputs))):
        c = _canon(tuple(inputs[i] for i in p), output)
        key = (tuple(len(t) for t in c[0]), c)
        if best is None or key < best:
            best = key
    return best[1]


def skeletons(
    n_tensors,
    max_rank,
    max_labels=None,
    max_out_rank=2,
    max_positions=None,
    dedupe_perm=True,
    outputs="all",
):
    """All skeletons with exactly ``n_tensors`` tensors, each of rank <=
    max_rank.  ``outputs``: 'all' = every ordered subset of the labels up to
    max_out_rank; 'unordered' = every subset in sorted order only."""
    seen = set()
    res = []
    for ranks in itertools.product(range(max_rank, -1, -1), repeat=n_tensors):
        if dedupe_perm and list(ranks) != sorted(ranks, reverse=True):
            continue
        npos = sum(ranks)
        if max_positions is not None and npos > max_positions:
            continue
        for g in rgs(npos, kmax=max_labels):
            labels = sorted(set(g))
            inputs = []
            k = 0
            for r in ranks:
                inputs.append("".join(LETTERS[x] for x in g[k : k + r]))
                k += r
            inputs = tuple(inputs)
            labs = [LETTERS[x] for x in labels]
            for orank in range(0, min(max_out_rank, len(labs)) + 1):
                gen = (
                    itertools.permutations(labs, orank)
                    if outputs == "all"
                    else itertools.combinations(labs, orank)
                )
                for out in gen:
                    out = "".join(out)
                    key = canon_perm(inputs, out) if dedupe_perm else (inputs, out)
                    if key in seen:
                        continue
                    seen.add(key)
                    res.append((inputs, out))
    return res


def all_labels(inputs, output=""):
    seen = {}
    for t in inputs:
        for c in t:
            seen.setdefault(c)
    for c in output:
        seen.setdefault(c)
    return list(seen)


# ---------------------------------------------------------------------------
# trees


def _pairings(items):
    """All binary trees (as nested tuples) over the list of leaves."""
    if len(items) == 1:
        yield items[0]
        return
    first, rest = items[0], items[1:]
    # split rest into the part that goes with `first` and the other part
    n = len(rest)
    for mask in range(1 << n):
        left = [first] + [rest[i] for i in range(n) if mask >> i & 1]
        right = [rest[i] for i in range(n) if not mask >> i & 1]
        if not right:
            continue
        for lt in _pairings(left):
            for rt in _pairings(right):
                yield (lt, rt)


def tree_to_ssa(t, n):
    """nested tuple tree -> ssa path"""
    path = []
    nxt = [n]

    def rec(x):
        if not isinstance(x, tuple):
            return x
        a = rec(x[0])
        b = rec(x[1])
        path.append((a, b))
        r = nxt[0]
        nxt[0] += 1
        return r

    rec(t)
    return tuple(path)


def all_trees(n):
    """All (2n-3)!! binary trees over n leaves as ssa paths."""
    if n == 1:
        return [()]
    res = [tree_to_ssa(t, n) for t in _pairings(list(range(n)))]
    assert len(res) == double_factorial(2 * n - 3), (n, len(res))
    return res


def double_factorial(k):
    r = 1
    while k > 1:
        r *= k
        k -= 2
    return r


def ssa_nodes(ssa_path, n):
    """The set of intermediate nodes (frozensets of leaves) of an ssa path."""
    nodes = {i: frozenset([i]) for i in range(n)}
    out = []
    nxt = n
    for p in ssa_path:
        s = frozenset().union(*[nodes[i] for i in p])
        nodes[nxt] = s
        out.append(s)
        nxt += 1
    return out


def is_connected(inputs, output=""):
    n = len(inputs)
    if n == 0:
        return True
    seen = {0}
    stack = [0]
    while stack:
        i = stack.pop()
        for j in range(n):
            if j not in seen and set(inputs[i]) & set(inputs[j]):
                seen.add(j)
                stack.append(j)
    return len(seen) == n
