#!/bin/bash
# Build /verif/.venv: an overlay of /venv (the repository's environment) with
# z3-solver and crosshair-tool from the offline wheelhouse.  Idempotent.
set -e
cd "$(dirname "$0")"
V=.venv
if [ -x "$V/bin/python" ] && "$V/bin/python" -c "import z3, crosshair, numpy, autoray" 2>/dev/null; then
  exit 0
fi
rm -rf "$V"
/venv/bin/python -m venv "$V"
SP=$("$V/bin/python" -c "import sysconfig; print(sysconfig.get_paths()['purelib'])")
printf "import site; site.addsitedir('/venv/lib/python3.12/site-packages')\n" > "$SP/_verif_overlay.pth"
PIP_NO_INDEX=1 "$V/bin/pip" install -q --no-index --find-links /opt/veriftools/wheels z3-solver crosshair-tool >/dev/null
"$V/bin/python" -c "import z3, crosshair, numpy, autoray; print('verif venv ok', z3.get_version_string())"
