#!/usr/bin/env python3
"""tools/keep_seed.py <ID> <seed_dir> '<needs>' '<caught_by json>' '<ran>' -- store a confirmed seeded change under seeded/<ID>/"""
import json, os, shutil, sys, glob
pid, sd, needs, caught, ran = sys.argv[1:6]
name = sys.argv[6] if len(sys.argv) > 6 else pid
d = os.path.join(os.path.dirname(os.path.dirname(os.path.abspath(__file__))), "seeded", name)
os.makedirs(d, exist_ok=True)
shutil.copy(os.path.join(sd, "patch.diff"), os.path.join(d, "patch.diff"))
for f in glob.glob(os.path.join(sd, "demo_*.py")):
    shutil.copy(f, d)
if os.path.exists(os.path.join(sd, "NOTES.md")):
    shutil.copy(os.path.join(sd, "NOTES.md"), os.path.join(d, "NOTES.md"))
meta = {"property": pid, "needs_to_manifest": needs, "caught_by": json.loads(caught), "what_was_run": ran, "origin": "independent sub-agent given only the property text and a scratch worktree"}
json.dump(meta, open(os.path.join(d, "meta.json"), "w"), indent=1)
print("kept", d)
