#!/usr/bin/env python3
"""Compare a junit xml of the repo test-suite with /root/.vp/BASELINE.json stable_pass."""
import json, sys, xml.etree.ElementTree as ET
b = json.load(open("/root/.vp/BASELINE.json"))
want = set(b["stable_pass"])
root = ET.parse(sys.argv[1]).getroot()
passed = set()
for tc in root.iter("testcase"):
    name = f"{tc.get('classname')}::{tc.get('name')}"
    if not any(ch.tag in ("failure", "error", "skipped") for ch in tc):
        passed.add(name)
missing = sorted(want - passed)
print("stable_pass", len(want), "passed now", len(passed), "missing", len(missing))
for m in missing[:20]:
    print("  MISSING", m)
sys.exit(1 if missing else 0)
