#!/usr/bin/env python3
"""Regenerate MANIFEST.json from the table below (kept in one place so the
manifest stays valid while checks are added)."""
import json
import os

HERE = os.path.dirname(os.path.dirname(os.path.abspath(__file__)))

BASELINE_OFF = (
    "cd /repo && env -u COTENGRA_VERIF /venv/bin/python -m pytest -ra -q -p no:cacheprovider --timeout=900 "
    "--continue-on-collection-errors --junitxml=/tmp/verif_baseline.junit.xml"
)

TECH = "symbolic execution of the real /repo functions on z3 proxies (symx replay executor); z3 decides every branch and the final assertion"

# id -> (text, note, technique, design_ref)
CHECKS = {
    "C01": (
        "Bounded model checking: the real ContractionTree/Contractor/einsum/tensordot code is executed on numpy object arrays of z3 Reals for every "
        "skeleton, tree and option combination inside the bound; z3 proves out == dense einsum polynomial for ALL real entries (unsat) or returns entries "
        "that are replayed on float arrays. Order callables return solver variables, so every admissible traversal order is a path; one tree object also serves "
        "successive option sets; exceptions of the code under test are violation candidates.",
        "Trusted: z3, numpy object-array semantics = float-array semantics (modulo rounding), dense reference evaluator (15 lines). Bounds: N<=3 (quick) / N<=4 "
        "(thorough) tensors, rank<=2/3, sizes in {1,2,3}; nothing is claimed outside them.",
        "symbolic tensors (z3 Real entries) through the real numpy path + z3 polynomial identity",
        "DESIGN.md 3/C01",
    ),
    "C03": (
        "Bounded model checking with UNBOUNDED symbolic index sizes: contract_stats/total_flops/total_write/max_size/peak_size/get_flops/get_size and "
        "remove_ind's incremental updates run on z3 Int proxies; z3 proves equality with the definitional cost terms on every path (paths = orderings of the "
        "max and of the traversal keys); every per-node cache is optionally warmed before the first / before each index removal. Part (b): the real Contractor/slice_arrays run on shape-only arrays with symbolic dims; produced shapes == reported.",
        "Trusted: z3 NIA, the definitional evaluator vlib/costs.py, numpy's shape rules re-stated in vlib/shapearr.py. A label is either concretely 1 (enumerated) "
        "or symbolic >= 2. Skeleton bound N<=3 (quick) / N<=4 (thorough).",
        "symbolic sizes (unbounded z3 Int) through the real cost code; z3 NIA identities per path",
        "DESIGN.md 3/C03",
    ),
}

NOT_YET = {}


def main():
    props = [json.loads(l) for l in open(os.path.join(HERE, "properties.jsonl"))]
    ids = [p["id"] for p in props]
    na_file = os.path.join(HERE, "tools", "not_applicable.json")
    na = json.load(open(na_file)) if os.path.exists(na_file) else {}
    extra_file = os.path.join(HERE, "tools", "checks_table.json")
    table = dict(CHECKS)
    if os.path.exists(extra_file):
        for k, v in json.load(open(extra_file)).items():
            table[k] = tuple(v)
    hooks_file = os.path.join(HERE, "tools", "hook_commits.json")
    hook_commits = json.load(open(hooks_file)) if os.path.exists(hooks_file) else []
    checks = []
    for i in ids:
        if i not in table or not os.path.exists(os.path.join(HERE, "checks", i.lower() + ".py")):
            continue
        text, note, tech, ref = table[i]
        checks.append(
            {
                "property_id": i,
                "quick_cmd": f"./check {i} --tier quick",
                "thorough_cmd": f"./check {i} --tier thorough",
                "evidence_file": f"evidence/{i}.json",
                "replay_cmd_template": f"./check {i} --replay {{path}}",
                "engine": "symx",
                "level_claimed": {"category": "model_checking", "text": text, "design_ref": ref},
                "level_note": note,
                "technique": tech,
            }
        )
    claimed = {c["property_id"] for c in checks}
    not_app = [
        {"property_id": i, "reason": na.get(i, "check not built yet in this round (planned, see DESIGN.md section 7)")}
        for i in ids
        if i not in claimed
    ]
    m = {
        "version": 1,
        "setup_cmd": "./setup.sh",
        "hooks": {
            "guard": "COTENGRA_VERIF",
            "enable": "no hook or instrumentation was added to /repo (source_commits is empty): checks import cotengra from /repo's current working tree (pure python, nothing to build) "
                      "and observe it from outside (sys.monitoring, shadowed module names, code recompiled from the current source); the guard name is reserved and unused",
            "baseline_off_cmd": BASELINE_OFF,
            "source_commits": hook_commits,
            "add_only": True,
        },
        "engines": [
            {"name": "symx", "path": "vlib/symx.py", "serves_properties": sorted(claimed),
             "kind_free_text": "replay-based symbolic executor: runs the unmodified /repo functions on z3-backed int/real/bool proxies; z3 decides every branch and final assertion"},
            {"name": "symarr", "path": "vlib/symarr.py", "serves_properties": sorted(claimed & {"C01", "C02", "C06", "C11", "C12", "C13", "C19"}),
             "kind_free_text": "numpy object arrays of z3 Reals run through the real numpy/cotengra execution path; dense einsum polynomial oracle"},
        ],
        "checks": checks,
        "notes": TECH + ". Exit codes: 0 held / 1 VIOLATION (replayed on the real code first) / 3 harness error. Known findings: known_findings.json.",
        "not_applicable": not_app,
    }
    with open(os.path.join(HERE, "MANIFEST.json"), "w") as fh:
        json.dump(m, fh, indent=1)
    print("claimed", sorted(claimed), "not claimed", [x["property_id"] for x in not_app])


if __name__ == "__main__":
    main()
