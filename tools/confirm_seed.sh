#!/bin/bash
# usage: tools/confirm_seed.sh <ID> <seed_dir>   -- confirm a sub-agent's seeded change in a fresh scratch worktree:
#   demo passes on clean code, patch applies, demo fails with patch, existing tests pass with patch
set -u
ID=$1; SD=$2; W=/tmp/confirm_$ID
git -C /repo worktree remove --force $W 2>/dev/null
git -C /repo worktree add -q $W HEAD || exit 2
cd $W
cp $SD/demo_*.py $W/; DEMO=$(ls $W/demo_*.py | head -1)
PYTHONPATH=$W timeout 900 /venv/bin/python -W ignore $DEMO > /tmp/confirm_${ID}_clean.log 2>&1; echo "demo on clean tree: exit $?"
git apply $SD/patch.diff || { echo "PATCH DOES NOT APPLY"; exit 2; }
PYTHONPATH=$W timeout 900 /venv/bin/python -W ignore $DEMO > /tmp/confirm_${ID}_patched.log 2>&1; echo "demo on patched tree: exit $?"
if [ "${SKIP_TESTS:-0}" != "1" ]; then
  PYTHONPATH=$W timeout 3000 /venv/bin/python -m pytest -q -p no:cacheprovider -n ${NPROC:-6} --timeout=900 --junitxml=/tmp/confirm_$ID.xml tests > /tmp/confirm_${ID}_tests.log 2>&1
  tail -1 /tmp/confirm_${ID}_tests.log
  python3 /verif/tools/baseline_compare.py /tmp/confirm_$ID.xml 2>/dev/null | head -5
fi
cd /; git -C /repo worktree remove --force $W
