#!/bin/bash
# usage: tools/try_seed.sh <patch.diff> <tier> <ID> [<ID>...]
# applies the patch to /repo, runs the given checks, reverts /repo.  Never commits anything in /repo.
set -u
P=$(realpath "$1"); TIER=$2; shift 2
cd /repo || exit 2
if [ -n "$(git status --porcelain -- cotengra)" ]; then echo "/repo has local changes, refusing"; exit 2; fi
git apply "$P" || { echo "patch does not apply"; exit 2; }
trap 'git -C /repo checkout -- . ' EXIT
cd /verif
for i in "$@"; do
  s=$(date +%s)
  timeout ${PER_CHECK_TIMEOUT:-1500} ./check $i --tier $TIER --no-evidence > /tmp/try_seed_$i.log 2>&1; rc=$?
  e=$(date +%s)
  echo "$i exit=$rc wall=$((e-s))s :: $(grep -E "^\[$i" /tmp/try_seed_$i.log | tail -1 | cut -c1-200)"
  grep -E "^(VIOLATION|KNOWN-FINDING|HARNESS-ERROR)" /tmp/try_seed_$i.log | cut -c1-260 | head -3
done
