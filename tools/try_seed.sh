#!/bin/bash
# usage: tools/try_seed.sh <patch.diff> <tier> <ID> [<ID>...]
# applies the patch to the repository under test (default /repo; TRY_REPO=<worktree> to use a scratch worktree instead),
# runs the given checks, reverts.  Never commits anything.
set -u
P=$(realpath "$1"); TIER=$2; shift 2
R=${TRY_REPO:-/repo}
cd $R || exit 2
if [ -n "$(git status --porcelain -- cotengra)" ]; then echo "$R has local changes, refusing"; exit 2; fi
git apply "$P" || { echo "patch does not apply"; exit 2; }
trap "git -C $R checkout -- . " EXIT
cd "$(dirname "$0")/.." 2>/dev/null || cd /verif
if [ "$R" != "/repo" ]; then export VERIF_REPO=$R PYTHONPATH=$R; fi
TAG=$(basename $R)
for i in "$@"; do
  s=$(date +%s)
  timeout ${PER_CHECK_TIMEOUT:-1500} ./check $i --tier $TIER --no-evidence ${JOBS:+--jobs $JOBS} > /tmp/try_seed_${TAG}_$i.log 2>&1; rc=$?
  e=$(date +%s)
  echo "$i exit=$rc wall=$((e-s))s :: $(grep -E "^\[$i" /tmp/try_seed_${TAG}_$i.log | tail -1 | cut -c1-200)"
  grep -E "^(VIOLATION|KNOWN-FINDING|HARNESS-ERROR)" /tmp/try_seed_${TAG}_$i.log | cut -c1-260 | head -3
done
