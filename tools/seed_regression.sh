#!/bin/bash
# tools/seed_regression.sh [tier] [seed names...] -- for every kept seeded change, apply it to /repo, run the checks
# listed in its meta.json caught_by, revert /repo, and report whether each check still raises a VIOLATION.
TIER=${1:-quick}; shift
cd "$(dirname "$0")/.."
SEEDS=${@:-$(ls seeded | grep -v README)}
for s in $SEEDS; do
  ids=$(python3 -c "import json;print(' '.join(k for k,v in json.load(open('seeded/$s/meta.json'))['caught_by'].items() if not v.startswith('not')))")
  if [ "${PRIMARY:-0}" = "1" ]; then ids=$(echo $ids | cut -d' ' -f1); fi
  out=$(tools/try_seed.sh seeded/$s/patch.diff $TIER $ids 2>&1 | grep -E "exit=")
  for i in $ids; do
    if echo "$out" | grep -q "^$i exit=1"; then echo "seed $s: $i CAUGHT"; else echo "seed $s: $i MISSED  ($(echo "$out" | grep "^$i " | cut -c1-80))"; fi
  done
done
git -C /repo status --short | head -3
