#!/bin/bash
# run every check of a tier sequentially, report exit code and wall time (for sizing the tiers)
TIER=${1:-quick}; shift
IDS=${@:-C01 C02 C03 C04 C05 C06 C07 C08 C09 C10 C11 C12 C13 C14 C15 C16 C17 C18 C19 C20}
cd "$(dirname "$0")/.."
for i in $IDS; do
  s=$(date +%s)
  timeout ${PER_CHECK_TIMEOUT:-3000} ./check $i --tier $TIER ${JOBS:+--jobs $JOBS} > /tmp/run_all_$i.$TIER.log 2>&1; rc=$?
  e=$(date +%s)
  echo "$i tier=$TIER exit=$rc wall=$((e-s))s :: $(grep "^\[$i" /tmp/run_all_$i.$TIER.log | tail -1 | cut -c1-260)"
  grep -E "^(VIOLATION|KNOWN-FINDING|HARNESS-ERROR)" /tmp/run_all_$i.$TIER.log | cut -c1-200 | head -5
done
