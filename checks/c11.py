"""C11 -- cotengra's matmul-based einsum and tensordot agree with the
reference.

Symbolic: every array entry (z3 Real).  Enumerated: every one- and
two-operand equation inside the bound (restricted growth strings over the
index positions, every output order), every assignment of sizes {1,2,3} to the
labels, every tensordot axes specification for the rank bound.
Two passes over the real code: numpy backend (object arrays) and a backend
without `einsum` ("vnp", an ndarray subclass) that forces `_einsum_single`
through its own diagonal / sum / transpose fallback.
Oracle: dense einsum polynomial (vlib.symarr.dense_einsum).
"""

import itertools
import sys
import warnings

import autoray
import numpy as np
import z3

from vlib import skel, symarr, symx
from vlib.runner import main

PROPERTY = "C11"

STUBS = [
    "backend 'vnp' (ndarray subclass, module name 'vnp') registered in autoray with sum/transpose/reshape/matmul/multiply but NO einsum, to force the fallback in _einsum_single",
    "autoray.register_backend(z3.ArithRef, 'numpy')",
]
ASSUMPTIONS = [
    "arithmetic over the reals",
    "numpy object arrays follow the float code path for transpose/reshape/matmul/multiply/sum/fancy indexing",
    "lru caches of the parsers are cleared at the start of each work item and warm inside it (keys are the full arguments)",
]
OUTSIDE = ["more than 4 distinct symbols / operand rank above the bound", "sizes above 3", "size-1 broadcasting between operands with different sizes for one label (numpy extension)"]


class VArr(np.ndarray):
    pass


VArr.__module__ = "vnp"
for _name in ("sum", "transpose", "reshape", "matmul", "multiply"):
    autoray.register_function("vnp", _name, getattr(np, _name))


def to_varr(a):
    return a.view(VArr)


def bounds(tier):
    if tier == "quick":
        return dict(single="rank<=3, <=3 symbols, every output order", pair="operand rank<=2 with <=4 symbols plus rank<=3 with <=3 symbols, every output order (rank<=3)",
                    sizes="every assignment from {1,2,3} with product<=48 (quick: {1,2} and all-3/alternating)", tensordot="ranks<=2, every axes int and tuple pair; each tuple written 5 ways (non-negative / negative axes on a, on b, on both, alternating; solver-chosen)")
    return dict(single="rank<=4, <=4 symbols", pair="operand rank<=3, <=4 symbols, every output order", sizes="every assignment from {1,2,3}, product of all label sizes <= 81",
                tensordot="ranks<=3, every axes int and tuple pair (5 non-negative/negative spellings each), dims {1,2,3}")


def size_assignments(labels, tier):
    L = len(labels)
    if tier == "quick":
        pats = [dict(zip(labels, p)) for p in itertools.product((1, 2), repeat=L)]
        pats.append({c: 3 for c in labels})
        pats.append({c: 2 + (i % 2) for i, c in enumerate(labels)})
        pats.append({c: 3 - (i % 2) for i, c in enumerate(labels)})
    else:
        pats = [dict(zip(labels, p)) for p in itertools.product((1, 2, 3), repeat=L)]
    out = []
    for p in pats:
        pr = 1
        for v in p.values():
            pr *= v
        if pr <= (48 if tier == "quick" else 81) and p not in out:
            out.append(p)
    return out


def tensordot_cases(maxrank):
    cases = []
    for ra in range(0, maxrank + 1):
        for rb in range(0, maxrank + 1):
            for k in range(0, min(ra, rb) + 1):
                cases.append((ra, rb, k))
                for axa in itertools.permutations(range(ra), k):
                    for axb in itertools.combinations(range(rb), k):
                        cases.append((ra, rb, (list(axa), list(axb))))
    return cases


def items(tier, seed):
    its = []
    if tier == "quick":
        single = skel.skeletons(1, 3, 3, 3, dedupe_perm=False)
        pair = skel.skeletons(2, 2, 4, 3, dedupe_perm=False) + [
            s for s in skel.skeletons(2, 3, 3, 3, dedupe_perm=False) if max(len(s[0][0]), len(s[0][1])) == 3
        ]
        td = tensordot_cases(2)
        chunk = 60
    else:
        single = skel.skeletons(1, 4, 4, 4, dedupe_perm=False)
        pair = skel.skeletons(2, 3, 4, 4, dedupe_perm=False)
        td = tensordot_cases(3)
        chunk = 120
    eqs = single + pair
    for i in range(0, len(eqs), chunk):
        its.append({"kind": "einsum", "eqs": [[list(a), b] for a, b in eqs[i : i + chunk]], "tier": tier, "k": i})
    for i in range(0, len(td), 40):
        its.append({"kind": "tensordot", "cases": td[i : i + 40], "tier": tier, "k": i})
    return its


def clear_caches():
    import importlib

    C = importlib.import_module("cotengra.contract")

    for f in (C._sanitize_equation, C._parse_einsum_single, C._parse_eq_to_batch_matmul, C._parse_tensordot_axes_to_matmul):
        f.cache_clear()


def run_einsum(eq, arrays, backend_kind):
    from cotengra.contract import einsum

    if backend_kind == "vnp":
        arrays = [to_varr(a) for a in arrays]
    return einsum(eq, *arrays)


def run_item(item, rec):
    warnings.simplefilter("ignore")
    clear_caches()
    tier = item["tier"]
    if item["kind"] == "einsum":
        for inputs, output in item["eqs"]:
            inputs = tuple(inputs)
            labels = skel.all_labels(inputs)
            eq = ",".join(inputs) + "->" + output
            for size in size_assignments(labels, tier):
                arrays = symarr.sym_arrays(inputs, size)
                ref = symarr.dense_einsum(inputs, output, size, arrays)
                for bk in ("numpy", "vnp"):
                    case = dict(kind="einsum", eq=eq, size=size, backend=bk)

                    def harness(ctx, case=case, bk=bk):
                        try:
                            out = run_einsum(eq, arrays, bk)
                        except Exception as e:  # noqa
                            rec.concrete_violation("einsum raised", dict(case=case, error=repr(e), arrays=None,
                                                                         signature=["C11", eq, "raise", type(e).__name__]))
                            return
                        out = np.asarray(symarr.as_obj_array(out))
                        bad = symarr.diff_formula(out, ref)

                        def viol(m):
                            return dict(case=case, arrays=[a.tolist() for a in symarr.model_arrays(m, arrays)],
                                        got_shape=list(out.shape), signature=["C11", eq, bk, sorted(size.items())])

                        rec.refute(ctx, bad, "einsum==reference", viol)

                    rec.add_explore(symx.explore(harness, max_paths=2))
            rec.sample(dict(eq=eq, sizes="assignments from {1,2,3}", entries="z3 Reals", backends=["numpy", "vnp (fallback path)"]))
        # engine validation on one equation of the item
        inputs, output = item["eqs"][-1]
        labels = skel.all_labels(inputs)
        size = {c: 2 + (i % 2) for i, c in enumerate(labels)}
        conc = symarr.generic_arrays(inputs, size, seed=3)
        got = run_einsum(",".join(inputs) + "->" + output, conc, "numpy")
        if np.allclose(got, symarr.np_reference(inputs, output, size, conc)):
            rec.validated += 1
    else:
        from cotengra.contract import tensordot

        for ra, rb, axes in item["cases"]:
            if isinstance(axes, int):
                axa, axb = list(range(ra - axes, ra)), list(range(axes))
            else:
                axa, axb = axes
            k = len(axa)
            # labels: contracted pairs share a label
            la = [None] * ra
            lb = [None] * rb
            nxt = iter(skel.LETTERS)
            for i, j in zip(axa, axb):
                la[i] = lb[j] = next(nxt)
            la = [x if x is not None else next(nxt) for x in la]
            lb = [x if x is not None else next(nxt) for x in lb]
            out_l = [x for i, x in enumerate(la) if i not in axa] + [x for j, x in enumerate(lb) if j not in axb]
            inputs = ("".join(la), "".join(lb))
            output = "".join(out_l)
            labels = skel.all_labels(inputs)
            for size in size_assignments(labels, tier):
                arrays = symarr.sym_arrays(inputs, size)
                ref = symarr.dense_einsum(inputs, output, size, arrays)
                for bk in ("numpy", "vnp"):
                    case0 = dict(kind="tensordot", ra=ra, rb=rb, axes=axes, size=size, backend=bk, inputs=list(inputs), output=output)

                    def harness(ctx, case0=case0, bk=bk):
                        arrs = [to_varr(a) for a in arrays] if bk == "vnp" else arrays
                        # how each axis is WRITTEN is solver-chosen: numpy.tensordot accepts negative axes
                        rep = symx.choose("axis_representation", 5) if (k and not isinstance(axes, int)) else 0
                        aa = [x - ra if (rep in (1, 3) or (rep == 4 and i % 2 == 0)) else x for i, x in enumerate(axa)]
                        bb = [x - rb if (rep in (2, 3) or (rep == 4 and i % 2 == 1)) else x for i, x in enumerate(axb)]
                        ax_arg = axes if isinstance(axes, int) else (tuple(aa), tuple(bb))
                        case = dict(case0, axes_arg=(ax_arg if isinstance(ax_arg, int) else [list(aa), list(bb)]))
                        try:
                            out = tensordot(arrs[0], arrs[1], ax_arg)
                        except Exception as e:  # noqa
                            rec.concrete_violation("tensordot raised", dict(case=case, error=repr(e), arrays=None,
                                                                            signature=["C11", "tensordot", ra, rb, str(ax_arg), "raise"]))
                            return
                        out = np.asarray(symarr.as_obj_array(out))
                        bad = symarr.diff_formula(out, ref)

                        def viol(m):
                            return dict(case=case, arrays=[a.tolist() for a in symarr.model_arrays(m, arrays)],
                                        signature=["C11", "tensordot", ra, rb, str(ax_arg), bk, sorted(size.items())])

                        rec.refute(ctx, bad, "tensordot==reference", viol)

                    rec.add_explore(symx.explore(harness, max_paths=12))
            rec.sample(dict(tensordot=dict(rank_a=ra, rank_b=rb, axes=axes), entries="z3 Reals"))
        rec.validated += 1


def replay(v):
    warnings.simplefilter("ignore")
    from cotengra.contract import einsum, tensordot

    case = v["case"]
    size = case["size"]
    if case["kind"] == "einsum":
        lhs, output = case["eq"].split("->")
        inputs = tuple(lhs.split(","))
    else:
        inputs, output = tuple(case["inputs"]), case["output"]
    tries = []
    if v.get("arrays"):
        tries.append([np.array(a, dtype=float).reshape(tuple(size[c] for c in t)) for a, t in zip(v["arrays"], inputs)])
    tries.append(symarr.generic_arrays(inputs, size, seed=5))
    for arrays in tries:
        want = symarr.np_reference(inputs, output, size, arrays)
        arrs = [to_varr(a) for a in arrays] if case["backend"] == "vnp" else arrays
        try:
            if case["kind"] == "einsum":
                got = einsum(case["eq"], *arrs)
            else:
                ax = case.get("axes_arg", case["axes"])
                ax = ax if isinstance(ax, int) else (tuple(ax[0]), tuple(ax[1]))
                got = tensordot(arrs[0], arrs[1], ax)
        except Exception as e:  # noqa
            return True, f"real code raised {e!r}"
        got = np.asarray(got)
        if got.shape != want.shape:
            return True, f"shape {got.shape} != {want.shape}"
        if not np.allclose(got, want, rtol=1e-9, atol=1e-12):
            return True, f"value mismatch max|d|={np.max(np.abs(got - want)):.3g}"
    return False, "real code agrees with the reference"


if __name__ == "__main__":
    sys.exit(main("checks.c11"))
