"""C20 -- compressed-contraction estimates equal the exact ones when nothing
is truncated; monotone in the cap; compressed pathfinders return complete
ordered trees.

(A) exactness: sizes symbolic (Int in [2,64], one rotating label == 1),
    chi a fresh Int with the facts chi >= prod_{x in S} d_x for EVERY subset S
    of labels ("at least as large as every bond that arises"); z3 proves
    tracker.flops == exact flops, write == exact write + sum of input sizes,
    max_size == max(exact max intermediate, largest input), peak >= max_size.
    The reading 'max_size == ContractionTree.max_size()' is checked too and
    is a listed finding when an input tensor dominates.
(B) monotonicity: sizes in [1,3], chi in [1,32]: capped max_size / peak /
    write never exceed the uncapped (chi = inf) values.
(C) completeness: greedy-compressed and greedy-span with every Gumbel / rng
    draw a solver variable return complete trees with a total order.
"""

import itertools
import sys
import warnings

import z3

from vlib import costs, skel, stubs, symx
from vlib.runner import main
from vlib.symx import term

PROPERTY = "C20"
STUBS = [
    "chi: fresh Int constrained by chi >= prod(S) for every subset S of labels (the hypothesis of the property)",
    "path_compressed_greedy.GumbelBatchedGenerator -> SymGumbel; GreedySpan(seed=SymRng)",
]
ASSUMPTIONS = ["ordinary networks only (no index repeated inside a tensor), as the property states", "sizes symbolic in [2,64] or concretely 1 (A); in [1,3] (B); concrete 2/3 (C)"]
OUTSIDE = ["kahypar-agglom with the real kahypar partitioner (its output is an external C library; the builder is covered with a stub partitioner in C05)", "N > 3 (quick) / N > 4 (thorough)"]


def bounds(tier):
    if tier == "quick":
        return dict(A="ordinary skeletons N<=3 rank<=2, all trees, orders {surface_order, dfs}, compress_late {F,T}", B="ordinary skeletons N=3 (every 4th), sizes [1,3], chi [1,32]",
                    C="connected ordinary skeletons N<=3 + 3 fixed N=4 networks, chi in {1,2,4,16}")
    return dict(A="ordinary skeletons N<=3 rank<=3, N=4 rank<=2 (every 3rd)", B="ordinary skeletons N=3 all, N=4 every 6th", C="connected ordinary skeletons N<=4 (subset)")


def ordinary(inputs):
    return all(len(set(t)) == len(t) for t in inputs)


FIXED4 = [(("ab", "bc", "cd", "da"), ""), (("abe", "bc", "cde", "da"), "e"), (("ab", "bc", "cd", "de"), "ae")]


def items(tier, seed):
    its = []
    if tier == "quick":
        skA = [s for s in skel.skeletons(2, 2, 4, 1, outputs="unordered") + skel.skeletons(3, 2, 4, 1, outputs="unordered")[::2] if ordinary(s[0])]
        skB = [s for s in skel.skeletons(3, 2, 4, 1, outputs="unordered") if ordinary(s[0])][::4]
        skC = [s for s in skel.skeletons(2, 2, 4, 1, outputs="unordered") + skel.skeletons(3, 2, 4, 1, outputs="unordered") if ordinary(s[0]) and skel.is_connected(s[0])][::2] + FIXED4
    else:
        skA = [s for s in skel.skeletons(2, 3, 4, 1, outputs="unordered") + skel.skeletons(3, 3, 4, 1, max_positions=7, outputs="unordered") + skel.skeletons(4, 2, 4, 1, max_positions=7, outputs="unordered")[::3] if ordinary(s[0])]
        skB = [s for s in skel.skeletons(3, 2, 4, 1, outputs="unordered") + skel.skeletons(4, 2, 4, 1, max_positions=7, outputs="unordered")[::6] if ordinary(s[0])]
        skC = [s for s in skel.skeletons(3, 2, 4, 1, outputs="unordered") + skel.skeletons(4, 2, 4, 1, max_positions=7, outputs="unordered")[::4] if ordinary(s[0]) and skel.is_connected(s[0])] + FIXED4
    # larger ordinary networks for the monotonicity clause: a narrow strip swept from one end to the other
    for W, L in (((4, 5),) if tier == "quick" else ((4, 5), (4, 6), (3, 8), (4, 8))):
        its.append({"kind": "S", "W": W, "L": L, "tier": tier})
    for kind, sk, ch in (("A", skA, 2), ("B", skB, 2), ("C", skC, 3)):
        for i in range(0, len(sk), ch):
            its.append({"kind": kind, "skeletons": [[list(a), b] for a, b in sk[i : i + ch]], "tier": tier, "k": i})
    return its


def chi_facts(ctx, chi, size, labels):
    for r in range(0, len(labels) + 1):
        for sub in itertools.combinations(labels, r):
            p = costs.zprod([size[c] for c in sub])
            ctx.assume(term(chi) >= term(p))


def run_A(item, rec):
    from cotengra.core import ContractionTree

    for si, (inputs, output) in enumerate(item["skeletons"]):
        inputs = tuple(inputs)
        n = len(inputs)
        labels = skel.all_labels(inputs)
        ones_pats = [()] + ([(labels[si % len(labels)],)] if labels else [])
        # an index carried by one tensor only and absent from the output
        dangling = any(sum(t.count(c) for t in inputs) == 1 and c not in output for c in labels)
        for ones in ones_pats:
            for ti, ssa in enumerate(skel.all_trees(n)):
                for oi, order in enumerate(("surface_order", "dfs")):
                    for li, late in enumerate((False, True)):
                        if item["tier"] == "quick" and (oi + li + ti + si + len(ones)) % 2:
                            # quick: two of the four (order, compress_late) combinations per tree, rotating
                            continue
                        case = dict(kind="A", inputs=list(inputs), output=output, ssa=[list(p) for p in ssa], ones=list(ones), order=order, late=late)

                        state = {"first": True}

                        cur = {}

                        def harness(ctx, ssa=ssa, ones=ones, order=order, late=late, case=case, cur=cur):
                            size = {c: (1 if c in ones else symx.sym_int("d_" + c, 2, 64)) for c in labels}
                            chi = symx.sym_int("chi", 1)
                            cur["size"], cur["chi"] = size, chi
                            chi_facts(ctx, chi, size, labels)
                            tree = ContractionTree.from_path(inputs, output, size, ssa_path=ssa)
                            tr = tree.compressed_contract_stats(chi=chi, order=order, compress_late=late)
                            steps = list(tree.traverse(order))
                            # independent definition with full input tensors (no single-tensor
                            # preprocessing): what a contraction of the raw tensors costs
                            ref = costs.tree_costs(inputs, output, size, steps, leaf_full=True)
                            in_sizes = [costs.zprod([size[c] for c in t]) for t in inputs]
                            tot_in = 0
                            mx_in = None
                            for s in in_sizes:
                                tot_in = tot_in + s
                                mx_in = s if mx_in is None else costs.zmax(mx_in, s)
                            bads = [
                                term(tr.flops) != term(ref["flops"]),
                                term(tr.write) != term(ref["write"]) + term(tot_in),
                                term(tr.max_size) != term(costs.zmax(ref["size"], mx_in)),
                                term(tr.peak_size) < term(tr.max_size),
                            ]

                            def viol(m):
                                return dict(case=case, size={c: symx.eval_model(m, size[c]) for c in labels}, chi=symx.eval_model(m, chi), which="definition",
                                            signature=["C20A", list(inputs), output, str(ssa), order, late])

                            rec.refute(ctx, z3.Or(bads), "compressed stats == definitional exact stats (no truncation)", viol)

                            # the literal statement: equal to the figures the tree itself reports
                            ex_f, ex_w, ex_m = tree.total_flops(), tree.total_write(), tree.max_size()
                            fw_bad = z3.Or(term(tr.flops) != term(ex_f), term(tr.write) != term(ex_w) + term(tot_in))
                            first = state["first"]
                            state["first"] = False
                            # queries whose only possible outcome is a listed finding need one witness per exploration
                            if (not dangling) or first:
                              rec.refute(ctx, fw_bad, "compressed flops/write == ContractionTree figures",
                                       lambda m: dict(case=case, size={c: symx.eval_model(m, size[c]) for c in labels}, chi=symx.eval_model(m, chi), which="tree-flops-write",
                                                      finding_key=("compressed-stats-count-dangling-indices" if dangling else None),
                                                      signature=["C20A-tree", list(inputs), output]), reach_probe=False)
                            dom = z3.And(term(tr.max_size) == term(mx_in), term(mx_in) > term(ex_m))
                            if first:
                              rec.refute(ctx, z3.And(term(tr.max_size) != term(ex_m), dom),
                                       "compressed max_size == ContractionTree.max_size() [an input tensor is the largest]",
                                       lambda m: dict(case=case, size={c: symx.eval_model(m, size[c]) for c in labels}, chi=symx.eval_model(m, chi), which="tree-max-size",
                                                      finding_key="compressed-max_size-counts-inputs", signature=["C20A-maxsize", list(inputs), output]), reach_probe=False)
                            if (not dangling) or first:
                              rec.refute(ctx, z3.And(term(tr.max_size) != term(ex_m), z3.Not(dom)),
                                       "compressed max_size == ContractionTree.max_size() [otherwise]",
                                       lambda m: dict(case=case, size={c: symx.eval_model(m, size[c]) for c in labels}, chi=symx.eval_model(m, chi), which="tree-max-size",
                                                      finding_key=("compressed-stats-count-dangling-indices" if dangling else None),
                                                      signature=["C20A-maxsize-other", list(inputs), output]), reach_probe=False)

                        state = {"first": True}
                        rec.add_explore(symx.explore(rec.guard_harness(harness, "compressed stats == definitional exact stats (no truncation)", lambda m, case=case, cur=cur, ssa=ssa, order=order, late=late: dict(
                            case=case, size={c: symx.eval_model(m, cur["size"][c]) for c in labels}, chi=symx.eval_model(m, cur["chi"]), which="definition",
                            signature=["C20A", list(inputs), output, str(ssa), order, late])), max_paths=400, deadline_s=30))
        rec.sample(dict(part="A", inputs=list(inputs), output=output, sizes="symbolic >= 2", chi="symbolic, >= every product of label sizes"))
    rec.validated += 1


def run_B(item, rec):
    from cotengra.core import ContractionTree

    for inputs, output in item["skeletons"]:
        inputs = tuple(inputs)
        n = len(inputs)
        labels = skel.all_labels(inputs)
        for ssa in skel.all_trees(n):
            for late in (False, True):
                case = dict(kind="B", inputs=list(inputs), output=output, ssa=[list(p) for p in ssa], late=late)

                cur = {}

                def harness(ctx, ssa=ssa, late=late, case=case, cur=cur):
                    size = {c: symx.sym_int("d_" + c, 1, 3) for c in labels}
                    chi = symx.sym_int("chi", 1, 32)
                    cur["size"], cur["chi"] = size, chi
                    tree = ContractionTree.from_path(inputs, output, size, ssa_path=ssa)
                    capped = tree.compressed_contract_stats(chi=chi, order="dfs", compress_late=late)
                    free = tree.compressed_contract_stats(chi=float("inf"), order="dfs", compress_late=late)
                    bads = [term(capped.max_size) > term(free.max_size), term(capped.peak_size) > term(free.peak_size), term(capped.write) > term(free.write)]

                    def viol(m):
                        return dict(case=case, size={c: symx.eval_model(m, size[c]) for c in labels}, chi=symx.eval_model(m, chi), signature=["C20B", list(inputs), output, str(ssa), late])

                    rec.refute(ctx, z3.Or(bads), "capped size/peak/write <= uncapped", viol)

                rec.add_explore(symx.explore(rec.guard_harness(harness, "capped size/peak/write <= uncapped", lambda m, case=case, cur=cur, ssa=ssa, late=late: dict(
                    case=case, size={c: symx.eval_model(m, cur["size"][c]) for c in labels}, chi=symx.eval_model(m, cur["chi"]), signature=["C20B", list(inputs), output, str(ssa), late])),
                    max_paths=3000, deadline_s=60, timeout_ms=4000))
        rec.sample(dict(part="B", inputs=list(inputs), output=output, sizes="symbolic in [1,3]", chi="symbolic in [1,32]"))
    rec.validated += 1


def check_tree_total_order(tree, n):
    if not tree.is_complete():
        return False
    ssa = tree.get_ssa_path("surface_order")
    ids = set(range(n))
    nxt = n
    for p in ssa:
        if len(p) != 2 or any(x not in ids for x in p):
            return False
        ids -= set(p)
        ids.add(nxt)
        nxt += 1
    return len(ssa) == n - 1 and len(ids) == 1


def run_C(item, rec):
    import cotengra.pathfinders.path_compressed_greedy as PCG

    orig = PCG.GumbelBatchedGenerator
    try:
        for inputs, output in item["skeletons"]:
            inputs = tuple(inputs)
            n = len(inputs)
            labels = skel.all_labels(inputs)
            size = {c: 2 + (i % 2) for i, c in enumerate(labels)}
            for chi in (1, 2, 4, 16):
                for which in ("greedy-compressed", "greedy-span"):
                    case = dict(kind="C", inputs=list(inputs), output=output, size=size, chi=chi, which=which)

                    def harness(ctx, chi=chi, which=which, case=case):
                        PCG.GumbelBatchedGenerator = stubs.SymGumbel
                        try:
                            if which == "greedy-compressed":
                                opt = PCG.GreedyCompressed(chi, temperature=0.5, coeff_size=0.5)
                            else:
                                opt = PCG.GreedySpan(temperature=0.5, seed=stubs.SymRng("gs"))
                            tree = opt.search(inputs, output, size)
                            ok = check_tree_total_order(tree, n)
                            err = None
                        except (symx.PathAbort, symx.Unsupported, symx.Budget):
                            raise
                        except Exception as e:  # noqa
                            ok, err = False, repr(e)
                        rec.refute(ctx, not ok, "compressed pathfinder returns a complete ordered tree",
                                   lambda m: dict(case=case, error=err, signature=["C20C", list(inputs), output, chi, which]))

                    rec.add_explore(symx.explore(harness, max_paths=300, deadline_s=20))
            rec.sample(dict(part="C", inputs=list(inputs), output=output, noise="every Gumbel / rng.random() draw is a solver variable"))
    finally:
        PCG.GumbelBatchedGenerator = orig
    rec.validated += 1


def strip_network(W, L, d=2):
    """W x L square lattice without output, all bonds of size d; swept tensor by tensor"""
    inputs, size = [], {}
    names = {}

    def lab(key):
        if key not in names:
            names[key] = chr(0x100 + len(names))
            size[names[key]] = d
        return names[key]

    for x in range(L):
        for y in range(W):
            t = []
            if x > 0:
                t.append(lab(("h", x - 1, y)))
            if x < L - 1:
                t.append(lab(("h", x, y)))
            if y > 0:
                t.append(lab(("v", x, y - 1)))
            if y < W - 1:
                t.append(lab(("v", x, y)))
            inputs.append("".join(t))
    n = len(inputs)
    ssa = [(0, 1)] + [(n + k - 2, k) for k in range(2, n)]
    return tuple(inputs), "", size, ssa


def strip_stats(W, L, chi, order, late):
    from cotengra.core import ContractionTree

    inputs, output, size, ssa = strip_network(W, L)
    tree = ContractionTree.from_path(inputs, output, size, ssa_path=ssa)
    capped = tree.compressed_contract_stats(chi=chi, order=order, compress_late=late)
    free = tree.compressed_contract_stats(chi=float("inf"), order=order, compress_late=late)
    return capped, free


def run_S(item, rec):
    W, L = item["W"], item["L"]
    case = dict(kind="S", W=W, L=L)

    def harness(ctx):
        chi = symx.sym_int("chi", 1, 8)
        order = ("dfs", "surface_order")[symx.choose("order", 2)]
        late = bool(symx.choose("compress_late", 2))
        cur = dict(chi=chi, order=order, late=late)

        def viol(m):
            return dict(case=dict(case, order=order, late=late), chi=symx.eval_model(m, chi), size={}, signature=["C20S", W, L, order, late])

        with rec.guarded(ctx, "capped size/peak/write <= uncapped (strip)", viol):
            capped, free = strip_stats(W, L, chi, order, late)
        bads = [term(capped.max_size) > term(free.max_size), term(capped.peak_size) > term(free.peak_size), term(capped.write) > term(free.write)]
        rec.refute(ctx, z3.Or(bads), "capped size/peak/write <= uncapped (strip)", viol)

    out = symx.explore(harness, max_paths=4000, deadline_s=(60 if item["tier"] == "quick" else 400), timeout_ms=4000)
    rec.add_explore(out)
    rec.sample(dict(part="S", strip=f"{W}x{L}, d=2, swept", chi="symbolic in [1,8]", order="solver-chosen", compress_late="solver-chosen", paths=out.paths))
    rec.validated += 1


def run_item(item, rec):
    warnings.simplefilter("ignore")
    {"A": run_A, "B": run_B, "C": run_C, "S": run_S}[item["kind"]](item, rec)


def replay(v):
    warnings.simplefilter("ignore")
    from cotengra.core import ContractionTree

    case = v["case"]
    if case["kind"] == "S":
        chi = int(v["chi"])
        capped, free = strip_stats(case["W"], case["L"], chi, case["order"], case["late"])
        if capped.max_size > free.max_size or capped.peak_size > free.peak_size or capped.write > free.write:
            return True, (f"{case['W']}x{case['L']} strip (d=2, swept), order={case['order']}, compress_late={case['late']}, chi={chi}: capped (S={capped.max_size},P={capped.peak_size},W={capped.write}) "
                          f"exceeds uncapped (S={free.max_size},P={free.peak_size},W={free.write})")
        return False, "monotone at the model point"
    inputs, output = tuple(case["inputs"]), case["output"]
    n = len(inputs)
    if case["kind"] == "C":
        import cotengra.pathfinders.path_compressed_greedy as PCG

        for seed in range(10):
            try:
                if case["which"] == "greedy-compressed":
                    tree = PCG.GreedyCompressed(case["chi"], temperature=0.5, coeff_size=0.5, seed=seed).search(inputs, output, case["size"])
                else:
                    tree = PCG.GreedySpan(temperature=0.5, seed=seed).search(inputs, output, case["size"])
            except Exception as e:  # noqa
                return True, f"{case['which']} raised {e!r} (seed {seed})"
            if not check_tree_total_order(tree, n):
                return True, f"{case['which']} returned an incomplete / unordered tree (seed {seed})"
        return False, "complete on 10 seeds"
    size = {k: int(x) for k, x in v["size"].items()}
    chi = int(v["chi"])
    ssa = [tuple(p) for p in case["ssa"]]
    tree = ContractionTree.from_path(inputs, output, size, ssa_path=ssa)
    if case["kind"] == "B":
        capped = tree.compressed_contract_stats(chi=chi, order="dfs", compress_late=case["late"])
        free = tree.compressed_contract_stats(chi=float("inf"), order="dfs", compress_late=case["late"])
        if capped.max_size > free.max_size or capped.peak_size > free.peak_size or capped.write > free.write:
            return True, f"chi={chi} sizes={size}: capped (S={capped.max_size},P={capped.peak_size},W={capped.write}) exceeds uncapped (S={free.max_size},P={free.peak_size},W={free.write})"
        return False, "monotone at the model point"
    tr = tree.compressed_contract_stats(chi=chi, order=case["order"], compress_late=case["late"])
    ins = [costs.zprod([size[c] for c in t]) for t in inputs]
    ins = [z3.simplify(x).as_long() if z3.is_expr(x) else x for x in ins]
    exf, exw, exm = tree.total_flops(), tree.total_write(), tree.max_size()
    which = v.get("which")
    if which == "tree-max-size":
        if tr.max_size != exm:
            return True, f"sizes={size} chi={chi}: compressed max_size {tr.max_size} (largest input {max(ins)}) vs ContractionTree.max_size() {exm}"
        return False, "equal"
    if which == "tree-flops-write":
        if tr.flops != exf or tr.write != exw + sum(ins):
            return True, f"sizes={size} chi={chi}: compressed flops {tr.flops} / write {tr.write} vs ContractionTree flops {exf} / write {exw}+{sum(ins)}"
        return False, "equal"
    ref = costs.tree_costs(inputs, output, size, list(tree.traverse(case["order"])), leaf_full=True)
    rf, rw, rs = (z3.simplify(x).as_long() if z3.is_expr(x) else x for x in (ref["flops"], ref["write"], ref["size"]))
    if tr.flops != rf or tr.write != rw + sum(ins) or tr.max_size != max(rs, max(ins)) or tr.peak_size < tr.max_size:
        return True, f"sizes={size} chi={chi}: tracker F={tr.flops} W={tr.write} S={tr.max_size} P={tr.peak_size}; definition F={rf} W={rw}+{sum(ins)} S=max({rs},{max(ins)})"
    return False, "equal at the model point"


if __name__ == "__main__":
    sys.exit(main("checks.c20"))
