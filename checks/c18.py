"""C18 -- internal cost simulators agree; optimizers report the cost of what
they return.

(A) lock-step: the tree (get_legs/get_involved/get_size/get_flops), the
    HyperGraph (compute_contracted_inds / candidate_contraction_size /
    contract_pair_cost / contract / node_size), the ContractionProcessor
    (contract_nodes / compute_contracted / compute_flops / compute_size) and
    SA's compute_contracted_info are stepped along the same SSA path with
    UNBOUNDED symbolic index sizes; z3 proves per step: same surviving index
    set, same size and flops.
(B) reported cost == cost of the returned path: optimize_greedy /
    optimize_random_greedy_track_flops with symbolic sizes (temperature 0) and
    with symbolic Gumbel noise (concrete sizes), RandomGreedyOptimizer.best_flops
    and ReusableRandomGreedyOptimizer's stored score.
"""

import math
import sys
import types
import warnings

import z3

from vlib import skel, stubs, symx
from vlib.runner import main
from vlib.symx import term

PROPERTY = "C18"
STUBS = [
    "cotengra.pathfinders.path_basic.GumbelBatchedGenerator -> SymGumbel (each call an arbitrary real; the Gumbel support is the real line)",
    "cotengra.pathfinders.path_basic.math -> proxy whose log10(symbolic) returns a formal log (so the reported log10(flops) can be compared as flops); everything else is the real math",
    "SymRng (uniform_mode='grid': costmod/temperature drawn from {lo, mid, hi}) passed through the public seed= argument",
]
ASSUMPTIONS = [
    "sizes are symbolic Ints >= 2 (or concretely 1 for an enumerated label) in (A) and in the temperature-0 part of (B); concrete small sizes where scores take math.log of a size expression",
    "(A) is restricted to networks each simulator supports without preprocessing: no repeated index inside a tensor, no index confined to one tensor and absent from the output",
]
OUTSIDE = ["cotengrust accelerated variants", "thread/process pools inside RandomGreedyOptimizer (parallel=False)", "networks beyond the skeleton bound"]


def bounds(tier):
    if tier == "quick":
        return dict(A="sim-free skeletons N<=3 rank<=2 (<=4 labels), all trees, sizes unbounded >=2 + one rotating label ==1", B="skeletons N<=3 (every 3rd) + 4 fixed N=4/5 networks incl. batch index; ntrials<=2")
    return dict(A="sim-free skeletons N<=3 rank<=3 and N=4 rank<=2, all trees", B="skeletons N<=3 (all) + fixed N=4/5 networks; ntrials<=2")


def sim_free(inputs, output):
    for t in inputs:
        if len(set(t)) != len(t):
            return False
    for c in skel.all_labels(inputs):
        if sum(c in t for t in inputs) + (c in output) < 2:
            return False
    return True


FIXED = [
    (("ab", "bc", "cd", "da"), ""),
    (("abx", "bcx", "cdx", "dax"), ""),  # batch index on all tensors, summed
    (("abx", "bcx", "cdx", "dax"), "x"),  # batch index kept
    (("ab", "bc", "c", "ad"), "d"),
    (("ab", "ab", "bc", "cd"), "d"),  # hadamard pair
]


def items(tier, seed):
    its = []
    if tier == "quick":
        sk = [s for s in skel.skeletons(2, 2, 4, 2, outputs="unordered") + skel.skeletons(3, 2, 4, 2, outputs="unordered") if sim_free(*s)]
        skb = (skel.skeletons(2, 2, 4, 1, outputs="unordered") + skel.skeletons(3, 2, 4, 1, outputs="unordered"))[::3]
    else:
        sk = [s for s in skel.skeletons(2, 3, 4, 2, outputs="unordered") + skel.skeletons(3, 3, 4, 2, max_positions=7, outputs="unordered")
              + skel.skeletons(4, 2, 4, 2, max_positions=7, outputs="unordered") if sim_free(*s)]
        skb = skel.skeletons(2, 2, 4, 1, outputs="unordered") + skel.skeletons(3, 2, 4, 1, outputs="unordered")
    for i in range(0, len(sk), 10):
        its.append({"kind": "A", "skeletons": [[list(a), b] for a, b in sk[i : i + 10]], "tier": tier, "k": i})
    for i in range(0, len(skb), 4):
        its.append({"kind": "B", "skeletons": [[list(a), b] for a, b in skb[i : i + 4]], "tier": tier, "k": i})
    for i, (a, b) in enumerate(FIXED):
        its.append({"kind": "B", "skeletons": [[list(a), b]], "tier": tier, "k": 10000 + i})
    return its


# ---------------------------------------------------------------------------


def run_A(item, rec):
    from cotengra.core import ContractionTree
    from cotengra.hypergraph import HyperGraph
    from cotengra.pathfinders import path_basic as PB
    from cotengra.pathfinders.path_simulated_annealing import compute_contracted_info

    tier = item["tier"]
    for si, (inputs, output) in enumerate(item["skeletons"]):
        inputs = tuple(inputs)
        n = len(inputs)
        labels = skel.all_labels(inputs)
        ones_pats = [()] + ([(labels[si % len(labels)],)] if labels else [])
        for ones in ones_pats:
            for ssa in skel.all_trees(n):
                case = dict(kind="A", inputs=list(inputs), output=output, ssa=[list(p) for p in ssa], ones=list(ones))

                cur = {}

                def harness(ctx, ssa=ssa, ones=ones, case=case, cur=cur):
                    size = {c: (1 if c in ones else symx.sym_int("d_" + c, 2)) for c in labels}
                    cur["size"] = size
                    tree = ContractionTree.from_path(inputs, output, size, ssa_path=ssa)
                    hg = HyperGraph(inputs, output, size)
                    cp = PB.ContractionProcessor(inputs, output, size, track_flops=True)
                    rev = {v: k for k, v in cp.indmap.items()}
                    tmap = {i: frozenset([i]) for i in range(n)}
                    hmap = {i: i for i in range(n)}
                    cmap = {i: i for i in range(n)}
                    nxt = n
                    bads = []
                    tot = 0
                    chain = {i: tree.get_legs(frozenset([i])) for i in range(n)}
                    for (i, j) in ssa:
                        l, r = tmap.pop(i), tmap.pop(j)
                        p = l | r
                        tmap[nxt] = p
                        L = set(tree.get_legs(p))
                        S = tree.get_size(p)
                        F = tree.get_flops(p)
                        tot = tot + F
                        # hypergraph
                        hi, hj = hmap.pop(i), hmap.pop(j)
                        h_inds = set(hg.compute_contracted_inds((hi, hj)))
                        h_size = hg.candidate_contraction_size(hi, hj)
                        h_cost = hg.contract_pair_cost(hi, hj)
                        hk = hg.contract(hi, hj)
                        hmap[nxt] = hk
                        if h_inds != L or set(hg.get_node(hk)) != L:
                            bads.append(z3.BoolVal(True))
                        bads += [term(h_size) != term(S), term(hg.node_size(hk)) != term(S), term(h_cost) != term(F)]
                        # processor
                        ci, cj = cmap.pop(i), cmap.pop(j)
                        c_flops = PB.compute_flops(cp.nodes[ci], cp.nodes[cj], cp.sizes)
                        ck = cp.contract_nodes(ci, cj)
                        cmap[nxt] = ck
                        c_legs = {rev[ix] for ix, _ in cp.nodes[ck]}
                        if c_legs != L:
                            bads.append(z3.BoolVal(True))
                        bads += [term(PB.compute_size(cp.nodes[ck], cp.sizes)) != term(S), term(c_flops) != term(F)]
                        # annealing's local evaluator, on the tree's own child legs ...
                        a_legs, a_cost, a_size = compute_contracted_info(tree.get_legs(l), tree.get_legs(r), tree.appearances, size)
                        if set(a_legs) != L:
                            bads.append(z3.BoolVal(True))
                        bads += [term(a_cost) != term(F), term(a_size) != term(S)]
                        # ... and CHAINED: fed with its own previous outputs, as annealing does when it
                        # writes the evaluator's legs into the tree (appearance counts matter here)
                        c_legs, c_cost, c_size = compute_contracted_info(chain[i], chain[j], tree.appearances, size)
                        chain[nxt] = c_legs
                        if set(c_legs) != L or (len(p) != n and dict(c_legs) != dict(tree.get_legs(p))):
                            bads.append(z3.BoolVal(True))
                        bads += [term(c_cost) != term(F), term(c_size) != term(S)]
                        nxt += 1
                    bads.append(term(cp.flops) != term(tot))
                    bads.append(term(tree.total_flops()) != term(tot))

                    def viol(m):
                        return dict(case=case, size={c: symx.eval_model(m, size[c]) for c in labels}, signature=["C18A", list(inputs), output, str(ssa)])

                    rec.refute(ctx, z3.Or(bads), "simulators agree per step", viol)

                rec.add_explore(symx.explore(rec.guard_harness(harness, "simulators agree per step", lambda m, case=case, cur=cur, ssa=ssa: dict(
                    case=case, size={c: symx.eval_model(m, cur["size"][c]) for c in labels}, signature=["C18A", list(inputs), output, str(ssa)])), max_paths=200))
        rec.sample(dict(part="A", inputs=list(inputs), output=output, sizes="symbolic >= 2", simulators=["tree", "hypergraph", "processor", "annealing evaluator"]))
    rec.validated += 1


class FormalLog10:
    def __init__(self, x):
        self.x = x

    def __lt__(self, o):
        return self.x < (o.x if isinstance(o, FormalLog10) else 10**o)


def math_proxy():
    m = types.ModuleType("math_proxy")
    m.__dict__.update(math.__dict__)

    def log10(x):
        if symx.is_sym(x):
            return FormalLog10(x)
        return math.log10(x)

    m.log10 = log10
    return m


def sizes_for(labels, variant):
    if variant == 0:
        return {c: 2 + (i % 3) for i, c in enumerate(labels)}
    return {c: 5 - (i % 3) for i, c in enumerate(labels)}


def run_B(item, rec):
    from cotengra.core import ContractionTree
    from cotengra.pathfinders import path_basic as PB

    orig_math, orig_g = PB.math, PB.GumbelBatchedGenerator
    try:
        for inputs, output in item["skeletons"]:
            inputs = tuple(inputs)
            n = len(inputs)
            labels = skel.all_labels(inputs)
            # ---- B1: symbolic sizes, temperature 0 (no logs of symbolic scores)
            case = dict(kind="B1", inputs=list(inputs), output=output)

            cur = {}

            def harness(ctx, case=case, cur=cur):
                PB.math = math_proxy()
                # N >= 4: only two sizes are symbolic (first label and the batch label), the rest are 2/3
                symb = set(labels) if n <= 3 else {labels[0], labels[-1]}
                size = {c: (symx.sym_int("d_" + c, 2) if c in symb else 2 + (k % 2)) for k, c in enumerate(labels)}
                cur["size"] = size
                path, rep = PB.optimize_random_greedy_track_flops(inputs, output, size, ntrials=1, costmod=1.0, temperature=0.0, seed=7, use_ssa=True)
                tree = ContractionTree.from_path(inputs, output, size, ssa_path=path, autocomplete=True)
                ok_struct = tree.is_complete()
                got = rep.x if isinstance(rep, FormalLog10) else None
                bads = [z3.BoolVal(not ok_struct)]
                if got is None:
                    # concrete report: every tracked step had concrete flops
                    bads.append(term(tree.total_flops()) != int(round(10**rep)))
                else:
                    bads.append(term(got) != term(tree.total_flops()))

                def viol(m):
                    return dict(case=case, size={c: symx.eval_model(m, size[c]) for c in labels}, path=[list(map(int, p)) for p in path],
                                signature=["C18B1", list(inputs), output], finding_key=None)

                rec.refute(ctx, z3.Or(bads), "random-greedy reported flops == flops of returned path (symbolic sizes, T=0)", viol)

            if n >= 2:
                rec.add_explore(symx.explore(rec.guard_harness(harness, "random-greedy reported flops == flops of returned path (symbolic sizes, T=0)", lambda m, case=case, cur=cur: dict(
                    case=case, size={c: symx.eval_model(m, cur["size"][c]) for c in labels}, path=[], signature=["C18B1", list(inputs), output], finding_key=None)), max_paths=3000, deadline_s=60))
            PB.math = orig_math

            # ---- B2: concrete sizes, symbolic Gumbel noise / costmod / temperature
            for variant in (0, 1):
                size = sizes_for(labels, variant)
                case = dict(kind="B2", inputs=list(inputs), output=output, size=size)

                def harness2(ctx, size=size, case=case):
                    PB.GumbelBatchedGenerator = stubs.SymGumbel
                    stubs.SymGumbel.instances = []
                    rng = stubs.SymRng("rg", uniform_mode="grid")
                    path, rep = PB.optimize_random_greedy_track_flops(inputs, output, size, ntrials=(2 if (n <= 2 or (n <= 3 and item['tier'] != 'quick')) else 1), seed=rng, use_ssa=True)
                    tree = ContractionTree.from_path(inputs, output, size, ssa_path=path, autocomplete=True)
                    true = tree.total_flops()
                    bad = not (tree.is_complete() and abs(rep - math.log10(true)) < 1e-9)

                    def viol(m):
                        return dict(case=case, path=[list(map(int, p)) for p in path], reported=rep, true_log10=math.log10(true),
                                    signature=["C18B2", list(inputs), output, sorted(size.items())])

                    rec.refute(ctx, bad, "random-greedy reported flops == flops of returned path (symbolic noise)", viol)

                if n >= 2 and (n <= 3 or variant == 0):
                    rec.add_explore(symx.explore(rec.guard_harness(harness2, "random-greedy reported flops == flops of returned path (symbolic noise)", lambda m, case=case: dict(
                        case=case, path=[], signature=["C18B2", list(inputs), output, sorted(case["size"].items())])), max_paths=(1500 if n <= 3 else 400), deadline_s=(40 if n <= 3 else 15)))
                PB.GumbelBatchedGenerator = orig_g

                # ---- B3: the optimizer objects
                def harness3(ctx, size=size, case=case):
                    PB.GumbelBatchedGenerator = stubs.SymGumbel
                    opt = PB.RandomGreedyOptimizer(max_repeats=1, seed=stubs.SymRng("o", uniform_mode="grid"), accel=False, parallel=False)
                    tree = opt.search(inputs, output, size)
                    true = tree.total_flops()
                    bad = not (tree.is_complete() and abs(opt.best_flops - math.log10(true)) < 1e-9)
                    rec.refute(ctx, bad, "RandomGreedyOptimizer.best_flops == flops of its tree",
                               lambda m: dict(case=dict(case, kind="B3"), reported=opt.best_flops, true_log10=math.log10(true),
                                              signature=["C18B3", list(inputs), output, sorted(size.items())]))
                    ropt = PB.ReusableRandomGreedyOptimizer(max_repeats=1, seed=stubs.SymRng("r", uniform_mode="grid"), accel=False, parallel=False)
                    t1 = ropt.search(inputs, output, size)
                    h, _ = ropt.hash_query(inputs, output, size)
                    con = ropt._cache[h]
                    t2 = ropt.search(inputs, output, size)  # reconstructed from the cache
                    bad = not (t2.is_complete() and abs(con["score"] - math.log10(t2.total_flops())) < 1e-9 and t2.get_path() == tuple(map(tuple, con["path"])))
                    rec.refute(ctx, bad, "ReusableRandomGreedyOptimizer stored score == flops of reconstructed tree",
                               lambda m: dict(case=dict(case, kind="B4"), reported=con["score"], true_log10=math.log10(t2.total_flops()),
                                              signature=["C18B4", list(inputs), output, sorted(size.items())]), reach_probe=False)

                # ---- B5: ONE optimizer object asked repeatedly about the same contraction (it keeps the best of all its
                # batches): after every call best_flops must be the cost of what that call returned
                def harness5(ctx, size=size, case=case):
                    PB.GumbelBatchedGenerator = stubs.SymGumbel
                    opt = PB.RandomGreedyOptimizer(max_repeats=1, seed=stubs.SymRng("o5", uniform_mode="grid"), accel=False, parallel=False)
                    for k in range(3):
                        mode = ["search", "ssa_path"][symx.choose(f"mode{k}", 2)]
                        if mode == "search":
                            tree = opt.search(inputs, output, size)
                        else:
                            tree = ContractionTree.from_path(inputs, output, size, ssa_path=opt.ssa_path(inputs, output, size), autocomplete=True)
                        true = tree.total_flops()
                        bad = not (tree.is_complete() and abs(opt.best_flops - math.log10(true)) < 1e-9)
                        rec.refute(ctx, bad, "RandomGreedyOptimizer (repeated calls): best_flops == flops of what the call returned",
                                   lambda m, k=k: dict(case=dict(case, kind="B5"), call=k, reported=opt.best_flops, true_log10=math.log10(true),
                                                       signature=["C18B5", list(inputs), output, sorted(size.items()), k]), reach_probe=(k == 0))
                        if bad:
                            return

                if n >= 3 and variant == 0:
                    rec.add_explore(symx.explore(rec.guard_harness(harness5, "RandomGreedyOptimizer (repeated calls): best_flops == flops of what the call returned", lambda m, case=case: dict(
                        case=dict(case, kind="B5"), signature=["C18B5", list(inputs), output, sorted(case["size"].items())])), max_paths=(400 if n <= 3 else 150), deadline_s=(20 if n <= 3 else 10)))
                PB.GumbelBatchedGenerator = orig_g

                if n >= 2 and variant == 0:
                    rec.add_explore(symx.explore(rec.guard_harness(harness3, "RandomGreedyOptimizer.best_flops == flops of its tree", lambda m, case=case: dict(
                        case=dict(case, kind="B3"), signature=["C18B3", list(inputs), output, sorted(case["size"].items())])), max_paths=(600 if n <= 3 else 150), deadline_s=(40 if n <= 3 else 10)))
                PB.GumbelBatchedGenerator = orig_g
            rec.sample(dict(part="B", inputs=list(inputs), output=output, noise="every Gumbel draw a solver variable", sizes="symbolic (T=0) / concrete (T>0)"))
    finally:
        PB.math, PB.GumbelBatchedGenerator = orig_math, orig_g
    rec.validated += 1


def run_item(item, rec):
    warnings.simplefilter("ignore")
    (run_A if item["kind"] == "A" else run_B)(item, rec)


def replay(v):
    warnings.simplefilter("ignore")
    from cotengra.core import ContractionTree
    from cotengra.hypergraph import HyperGraph
    from cotengra.pathfinders import path_basic as PB
    from cotengra.pathfinders.path_simulated_annealing import compute_contracted_info

    case = v["case"]
    inputs, output = tuple(case["inputs"]), case["output"]
    if case["kind"] == "A":
        size = {k: int(x) for k, x in v["size"].items()}
        ssa = [tuple(p) for p in case["ssa"]]
        n = len(inputs)
        tree = ContractionTree.from_path(inputs, output, size, ssa_path=ssa)
        hg = HyperGraph(inputs, output, size)
        cp = PB.ContractionProcessor(inputs, output, size, track_flops=True)
        tmap = {i: frozenset([i]) for i in range(n)}
        hmap = {i: i for i in range(n)}
        cmap = {i: i for i in range(n)}
        nxt = n
        chain = {i: tree.get_legs(frozenset([i])) for i in range(n)}
        for (i, j) in ssa:
            l, r = tmap.pop(i), tmap.pop(j)
            p = tmap[nxt] = l | r
            S, F = tree.get_size(p), tree.get_flops(p)
            hi, hj = hmap.pop(i), hmap.pop(j)
            hs, hc = hg.candidate_contraction_size(hi, hj), hg.contract_pair_cost(hi, hj)
            hmap[nxt] = hg.contract(hi, hj)
            ci, cj = cmap.pop(i), cmap.pop(j)
            cf = PB.compute_flops(cp.nodes[ci], cp.nodes[cj], cp.sizes)
            cmap[nxt] = ck = cp.contract_nodes(ci, cj)
            cs = PB.compute_size(cp.nodes[ck], cp.sizes)
            _, ac, asz = compute_contracted_info(tree.get_legs(l), tree.get_legs(r), tree.appearances, size)
            if len({S, hs, cs, asz}) != 1 or len({F, hc, cf, ac}) != 1:
                return True, f"step {sorted(p)}: sizes tree/hg/proc/sa = {S},{hs},{cs},{asz}; flops = {F},{hc},{cf},{ac}"
            cl, cc, csz = compute_contracted_info(chain[i], chain[j], tree.appearances, size)
            chain[nxt] = cl
            if set(cl) != set(tree.get_legs(p)) or (len(p) != n and dict(cl) != dict(tree.get_legs(p))) or cc != F or csz != S:
                return True, f"step {sorted(p)}: annealing evaluator fed with its own outputs gives legs {dict(cl)} cost {cc} size {csz}; tree has legs {dict(tree.get_legs(p))} flops {F} size {S}"
            nxt += 1
        return False, "simulators agree at the model sizes"
    if case["kind"] == "B1":
        size = {k: int(x) for k, x in v["size"].items()}
        path, rep = PB.optimize_random_greedy_track_flops(inputs, output, size, ntrials=1, costmod=1.0, temperature=0.0, seed=7, use_ssa=True)
        tree = ContractionTree.from_path(inputs, output, size, ssa_path=path, autocomplete=True)
        true = math.log10(tree.total_flops())
        if abs(rep - true) > 1e-9:
            return True, f"optimize_random_greedy_track_flops reports log10 flops {rep:.6f} but the returned path costs {true:.6f} (sizes {size})"
        return False, "reported == true"
    size = case["size"]
    if case["kind"] in ("B2",):
        # the returned path and the reported number are recorded: rebuild the tree
        tree = ContractionTree.from_path(inputs, output, size, ssa_path=[tuple(p) for p in v["path"]], autocomplete=True)
        true = math.log10(tree.total_flops())
        # and confirm on an ordinary seeded run of the real function
        for seed in range(5):
            path, rep = PB.optimize_random_greedy_track_flops(inputs, output, size, ntrials=2, seed=seed, use_ssa=True)
            t = ContractionTree.from_path(inputs, output, size, ssa_path=path, autocomplete=True)
            if abs(rep - math.log10(t.total_flops())) > 1e-9:
                return True, f"seed {seed}: reported log10 flops {rep:.6f}, returned path costs {math.log10(t.total_flops()):.6f}"
        return False, "reported == true on seeded runs"
    if case["kind"] == "B5":
        for seed in range(40):
            opt = PB.RandomGreedyOptimizer(max_repeats=1, seed=seed, accel=False, parallel=False)
            for k in range(4):
                if k % 2:
                    t = ContractionTree.from_path(inputs, output, size, ssa_path=opt.ssa_path(inputs, output, size), autocomplete=True)
                else:
                    t = opt.search(inputs, output, size)
                if abs(opt.best_flops - math.log10(t.total_flops())) > 1e-9:
                    return True, f"seed {seed}, call {k} on the same optimizer object: best_flops {opt.best_flops:.6f} but the returned path costs {math.log10(t.total_flops()):.6f}"
        return False, "ok on 40 seeds x 4 calls"
    if case["kind"] == "B3":
        for seed in range(5):
            opt = PB.RandomGreedyOptimizer(max_repeats=1, seed=seed, accel=False, parallel=False)
            t = opt.search(inputs, output, size)
            if abs(opt.best_flops - math.log10(t.total_flops())) > 1e-9:
                return True, f"seed {seed}: best_flops {opt.best_flops:.6f} vs tree {math.log10(t.total_flops()):.6f}"
        return False, "ok"
    for seed in range(5):
        ropt = PB.ReusableRandomGreedyOptimizer(max_repeats=1, seed=seed, accel=False, parallel=False)
        ropt.search(inputs, output, size)
        h, _ = ropt.hash_query(inputs, output, size)
        con = ropt._cache[h]
        t2 = ropt.search(inputs, output, size)
        if abs(con["score"] - math.log10(t2.total_flops())) > 1e-9:
            return True, f"seed {seed}: stored score {con['score']:.6f} vs reconstructed tree {math.log10(t2.total_flops()):.6f}"
    return False, "ok"


if __name__ == "__main__":
    sys.exit(main("checks.c18"))
