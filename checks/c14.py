"""C14 -- a reusable optimizer's cache hit is a correct answer for the question
asked.

(F) fingerprint lemma: two contractions q1, q2 (q2 a solver-chosen variant of
    q1: index order inside tensors / output permuted, labels permuted, tensors
    permuted, one size independent) with SYMBOLIC sizes; `hashlib.sha1` and
    `pickle.dumps` inside cotengra.reusable are replaced by an injective
    structural encoding, so `fingerprint(q1) == fingerprint(q2)` becomes a
    condition over the sizes that z3 decides.  Whenever the real
    ReusableOptimizer answers q2 from q1's entry: the rebuilt tree is a
    complete tree of q2, its sliced indices exist in q2 and its flops / write /
    size equal those of the tree stored for q1 (z3 identity in the sizes).
(H) histories: solver-chosen query sequences over a pool through one reusable
    optimizer (in memory and on disk with fresh objects), overwrite in
    {False, True, 'improved'}, cache_only; the sub-optimizer's Gumbel noise is
    symbolic so every search has every feasible outcome.
"""

import os
import shutil
import sys
import tempfile
import types
import warnings

import z3

from vlib import skel, stubs, symx
from vlib.runner import main
from vlib.symx import term

PROPERTY = "C14"
STUBS = [
    "(F) cotengra.reusable.hashlib / pickle -> injective structural encoding (sha1(pickle(x)) == sha1(pickle(y)) iff x == y structurally)",
    "path_basic.GumbelBatchedGenerator -> SymGumbel (noise of the random-greedy sub-optimizer symbolic)",
]
ASSUMPTIONS = ["sha1 of pickles is injective on the explored keys", "(H) concrete sizes; 'fresh process' = new optimizer object on the same directory (C15 uses real processes)"]
OUTSIDE = ["sequences longer than K", "concurrent use (C16)"]


def bounds(tier):
    return dict(F="base networks x variants {identity, within-tensor permutation, output permutation, label permutation (all), tensor permutation (all), one independent size}, hash_method a and b, sizes symbolic >= 2",
                H=f"pool of 4 queries, K={'3' if tier == 'quick' else '4'}, overwrite x cache_only x memory/disk, ReusableRandomGreedyOptimizer with symbolic noise + ReusableHyperOptimizer(greedy, slicing) concrete")


BASES = [
    (("ab", "bc", "cd"), "ad"),
    (("ab", "bc", "ca"), ""),
    (("abx", "bcx", "cx"), "a"),
]


def items(tier, seed):
    import itertools

    its = []
    for bi, (inputs, output) in enumerate(BASES):
        labels = skel.all_labels(inputs)
        for hm in ("a", "b"):
            its.append({"kind": "F", "base": bi, "hash": hm, "variant": "identity", "tier": tier})
            its.append({"kind": "F", "base": bi, "hash": hm, "variant": "within", "tier": tier})
            its.append({"kind": "F", "base": bi, "hash": hm, "variant": "size", "tier": tier})
            its.append({"kind": "F", "base": bi, "hash": hm, "variant": "allsizes", "tier": tier})
            its.append({"kind": "F", "base": bi, "hash": hm, "variant": "within-allsizes", "tier": tier})
            perms = list(itertools.permutations(labels))
            if tier == "quick":
                perms = perms[1::5]
            for p in perms:
                its.append({"kind": "F", "base": bi, "hash": hm, "variant": "relabel", "perm": "".join(p), "tier": tier})
            for tp in list(itertools.permutations(range(len(inputs))))[1:]:
                its.append({"kind": "F", "base": bi, "hash": hm, "variant": "tensors", "tperm": list(tp), "tier": tier})
    for optname in ("rgreedy", "hyper"):
        for overwrite in (False, True, "improved"):
            for disk in (False, True):
                for first in range(4):
                    its.append({"kind": "H", "opt": optname, "overwrite": overwrite, "disk": disk, "first": first, "tier": tier})
                    if optname == "hyper" and overwrite is not True and first < 2:
                        # a non-default objective: the hit tree must score what was stored
                        its.append({"kind": "H", "opt": optname, "overwrite": overwrite, "disk": disk, "first": first, "tier": tier, "minimize": "size"})
    return its


# ---------------------------------------------------------------------------
# (F)


class SKey:
    """structural, possibly symbolic key: equality is decided by the solver"""

    def __init__(self, v):
        self.v = v

    def __hash__(self):
        return 0x51

    def __eq__(self, o):
        if not isinstance(o, SKey):
            return False
        return bool(struct_eq(self.v, o.v))

    def hexdigest(self):
        return self

    def __getitem__(self, s):
        # h[:2], h[2:] for directory_split
        return SKeyPart(self, s)

    def __repr__(self):
        return f"SKey({self.v!r})"


class SKeyPart:
    def __init__(self, k, s):
        self.k, self.s = k, (s.start, s.stop)

    def __hash__(self):
        return 0x52

    def __eq__(self, o):
        return isinstance(o, SKeyPart) and self.s == o.s and self.k == o.k


def struct_eq(a, b):
    if isinstance(a, (tuple, list)) and isinstance(b, (tuple, list)):
        if len(a) != len(b):
            return False
        for x, y in zip(a, b):
            if not struct_eq(x, y):
                return False
        return True
    r = a == b
    return bool(r)


def stub_modules():
    h = types.ModuleType("hashlib_stub")
    h.sha1 = lambda x: SKey(x)
    p = types.ModuleType("pickle_stub")
    p.dumps = lambda x, *a, **k: x
    return h, p


def variant_of(inputs, output, item):
    v = item["variant"]
    if v == "identity":
        return inputs, output, {}
    if v == "within":
        return tuple(t[::-1] for t in inputs), output[::-1], {}
    if v == "size":
        return inputs, output, {"independent": skel.all_labels(inputs)[0]}
    if v == "allsizes":
        return inputs, output, {"independent": "*"}
    if v == "within-allsizes":
        return tuple(t[::-1] for t in inputs), output[::-1], {"independent": "*"}
    if v == "relabel":
        labels = skel.all_labels(inputs)
        m = dict(zip(labels, item["perm"]))
        return tuple("".join(m[c] for c in t) for t in inputs), "".join(m[c] for c in output), {}
    if v == "tensors":
        return tuple(inputs[i] for i in item["tperm"]), output, {}
    raise ValueError(v)


def run_F(item, rec):
    import cotengra.reusable as R
    from cotengra.core import ContractionTree
    from cotengra.pathfinders.path_basic import ReusableRandomGreedyOptimizer

    inputs, output = BASES[item["base"]]
    labels = skel.all_labels(inputs)
    in2, out2, extra = variant_of(inputs, output, item)
    saved = (R.hashlib, R.pickle)
    case = dict(kind="F", inputs=list(inputs), output=output, inputs2=list(in2), output2=out2, hash=item["hash"], variant=item["variant"])
    try:

        def harness(ctx):
            R.hashlib, R.pickle = stub_modules()
            size = {c: symx.sym_int("d_" + c, 2) for c in labels}
            size2 = dict(size)
            if extra.get("independent") == "*":
                size2 = {c: symx.sym_int("e_" + c, 2) for c in labels}
            elif "independent" in extra:
                size2[extra["independent"]] = symx.sym_int("e_" + extra["independent"], 2)
            opt = ReusableRandomGreedyOptimizer(max_repeats=1, seed=3, accel=False, parallel=False, hash_method=item["hash"], directory_split=False)
            # the entry for q1 is installed through the public update_from_tree with a fixed tree
            n = len(inputs)
            ssa = skel.all_trees(n)[0]
            t1 = ContractionTree.from_path(inputs, output, size, ssa_path=ssa)
            sl = labels[-1]
            t1.remove_ind_(sl)
            st1 = dict(t1.contract_stats())
            h1, missing = opt.hash_query(inputs, output, size)
            opt._cache[h1] = {"path": t1.get_path(), "score": 0.0, "sliced_inds": (sl,)}
            h2, missing2 = opt.hash_query(in2, out2, size2)
            if missing2:
                # fingerprints differ on this path: q2 would be searched afresh -- nothing to check
                return "miss"
            con = opt._cache[h2]
            # q2 is answered from q1's entry: rebuild exactly as ReusableHyperOptimizer._reconstruct_tree does
            try:
                t2 = ContractionTree.from_path(in2, out2, size2, path=con["path"])
                for ix in con["sliced_inds"]:
                    t2.remove_ind_(ix)
                ok = t2.is_complete()
                st2 = dict(t2.contract_stats())
            except (symx.PathAbort, symx.Unsupported, symx.Budget):
                raise
            except Exception as e:  # noqa
                rec.refute(ctx, True, "shared entry rebuilds for the second contraction",
                           lambda m: dict(case=case, size={c: symx.eval_model(m, size[c]) for c in labels}, size2={c: symx.eval_model(m, size2[c]) for c in labels},
                                          error=repr(e), finding_key=fk(item), signature=["C14F", case["inputs"], case["inputs2"], item["hash"], "raise"]))
                return "hit-raise"
            bads = [z3.BoolVal(not ok)] + [term(st1[q]) != term(st2[q]) for q in ("flops", "write", "size")]

            def viol(m):
                return dict(case=case, size={c: symx.eval_model(m, size[c]) for c in labels}, size2={c: symx.eval_model(m, size2[c]) for c in labels},
                            finding_key=fk(item), signature=["C14F", case["inputs"], case["inputs2"], case["output2"], item["hash"]])

            rec.refute(ctx, z3.Or(bads), "entry shared by two contractions is equally valid for both", viol)
            return "hit"

        out = symx.explore(harness, max_paths=500, deadline_s=60)
        rec.add_explore(out)
        hits = sum(1 for r in out.results if r and r.startswith("hit"))
        rec.notes["fingerprint_hits"] = rec.notes.get("fingerprint_hits", 0) + hits
        if item["variant"] in ("identity", "within") and item["hash"] == "a" and hits == 0:
            # the default fingerprint must identify contractions that differ only in index order
            rec.concrete_violation("default fingerprint identifies index-order variants", dict(case=case, size=None, size2=None, signature=["C14F", "no-hit", item["variant"]]))
        elif item["variant"] in ("identity", "within") and item["hash"] == "a":
            rec.obligations += 1
            rec.discharged += 1
        rec.sample(dict(part="F", case=case, paths=out.paths, hits=hits, sizes="symbolic >= 2"))
    finally:
        R.hashlib, R.pickle = saved
    rec.validated += 1


def fk(item):
    # hash 'b' sorts (label,size) pairs separately from the label-free incidence structure
    if item["hash"] == "b" and item["variant"] in ("relabel", "tensors"):
        return "reusable-hash-b-identifies-relabelled-contractions"
    return None


# ---------------------------------------------------------------------------
# (H)

POOL = [
    (("ab", "bc", "cd", "da"), "", {"a": 2, "b": 3, "c": 2, "d": 3}),
    (("ba", "cb", "dc", "ad"), "", {"a": 2, "b": 3, "c": 2, "d": 3}),  # index-order variant of the first
    (("ab", "bc", "cd", "da"), "", {"a": 2, "b": 3, "c": 2, "d": 4}),  # one size differs
    (("ab", "bc", "cd", "de", "ea"), "a", {"a": 2, "b": 2, "c": 3, "d": 2, "e": 2}),
]


def make_opt(optname, directory, overwrite, cache_only=False, seed=None, minimize=None):
    if optname == "rgreedy":
        from cotengra.pathfinders.path_basic import ReusableRandomGreedyOptimizer

        return ReusableRandomGreedyOptimizer(directory=directory, max_repeats=1, seed=(seed if seed is not None else 0), accel=False, parallel=False, overwrite=overwrite, cache_only=cache_only)
    from cotengra.hyperoptimizers.hyper import ReusableHyperOptimizer

    return ReusableHyperOptimizer(directory=directory, max_repeats=2, methods=["greedy"], optlib="random", parallel=False, progbar=False, slicing_opts={"target_size": 8},
                                  overwrite=overwrite, cache_only=cache_only, **({"minimize": minimize} if minimize else {}))


def run_H(item, rec):
    import cotengra.pathfinders.path_basic as PB

    tier = item["tier"]
    K = 3 if tier == "quick" else 4
    optname, overwrite, disk = item["opt"], item["overwrite"], item["disk"]
    orig_g = PB.GumbelBatchedGenerator
    work = tempfile.mkdtemp(prefix="verif_c14_")
    counter = [0]
    case0 = dict(kind="H", opt=optname, overwrite=overwrite, disk=disk, minimize=item.get("minimize"))
    try:

        def harness(ctx):
            if optname == "rgreedy":
                PB.GumbelBatchedGenerator = stubs.SymGumbel
            counter[0] += 1
            d = os.path.join(work, f"d{counter[0]}") if disk else None
            rng = stubs.SymRng("rg", uniform_mode="grid") if optname == "rgreedy" else None
            opt = make_opt(optname, d, overwrite, seed=rng, minimize=item.get("minimize"))
            seq = []
            stored_scores = {}
            for k in range(K):
                qi = item["first"] if k == 0 else symx.choose(f"q{k}", len(POOL))
                fresh = bool(symx.choose(f"fresh{k}", 2)) if disk and k > 0 else False
                mode = symx.choose(f"mode{k}", 3) if k > 0 else 0  # 0 search, 1 __call__, 2 cache_only search
                seq.append([qi, int(fresh), mode])
                inputs, output, size = POOL[qi]
                if fresh:
                    opt = make_opt(optname, d, overwrite, seed=rng, minimize=item.get("minimize"))  # a later process: empty memory cache
                h, missing_before = opt.hash_query(inputs, output, size)
                key = h if not isinstance(h, tuple) else "/".join(h)
                calls = {"n": 0}
                orig_run = opt._run_optimizer

                def counted(*a, **kw):
                    calls["n"] += 1
                    return orig_run(*a, **kw)

                opt._run_optimizer = counted
                bad = []
                try:
                    if mode == 2:
                        opt.cache_only = True
                        try:
                            tree = opt.search(inputs, output, size)
                            path = tree.get_path()
                        except KeyError:
                            tree = path = None
                            if not missing_before and overwrite is False:
                                bad.append("cache_only raised KeyError although the entry exists")
                        finally:
                            opt.cache_only = False
                        if calls["n"]:
                            bad.append("cache_only ran the sub-optimizer")
                    elif mode == 1:
                        path = opt(inputs, output, size)
                        tree = None
                    else:
                        tree = opt.search(inputs, output, size)
                        path = tree.get_path()
                except (symx.PathAbort, symx.Unsupported, symx.Budget):
                    raise
                except Exception as e:  # noqa
                    bad.append(f"raised {e!r}")
                    tree = path = None
                finally:
                    opt._run_optimizer = orig_run
                if path is not None:
                    n = len(inputs)
                    if not valid_linear(path, n):
                        bad.append(f"path {path} is not a complete path over {n} tensors")
                    con = opt._cache[h]
                    if tuple(map(tuple, path)) != tuple(map(tuple, con["path"])):
                        bad.append("returned path differs from the stored path")
                    if tree is not None:
                        if tuple(tree.inputs) != tuple(inputs) or tuple(tree.output) != tuple(output) or tree.N != n or not tree.is_complete():
                            bad.append("tree does not belong to the query")
                        if item.get("minimize") and abs(tree.get_score() - con["score"]) > 1e-4:
                            # the tree carries the objective the optimizer was built with: its own score is the stored one
                            bad.append(f"returned tree scores {tree.get_score():.6f} (objective {tree.get_default_objective()!r}) but the stored score is {con['score']:.6f}")
                        if tuple(tree.sliced_inds) != tuple(con["sliced_inds"]):
                            bad.append(f"sliced indices {tuple(tree.sliced_inds)} differ from stored {tuple(con['sliced_inds'])}")
                    if not missing_before and overwrite is False and calls["n"] and mode != 2:
                        bad.append("repeated query searched again")
                    if key in stored_scores and overwrite == "improved" and con["score"] > stored_scores[key] + 1e-12:
                        bad.append(f"overwrite='improved' made the stored score worse: {stored_scores[key]} -> {con['score']}")
                    stored_scores[key] = con["score"]
                seqc = [list(s) for s in seq]
                rec.refute(ctx, bool(bad), "cache answers the question asked",
                           lambda m, bad=list(bad), seqc=seqc: dict(case=dict(case0, seq=seqc), problems=bad[:4], signature=["C14H", optname, str(overwrite), disk, str(seqc), bad[0][:50]]))

        out = symx.explore(harness, max_paths=(500 if tier == "quick" else 8000), deadline_s=(20 if tier == "quick" else 200))
        rec.add_explore(out)
        rec.sample(dict(part="H", case=case0, first=item["first"], K=K, paths=out.paths))
    finally:
        PB.GumbelBatchedGenerator = orig_g
        shutil.rmtree(work, ignore_errors=True)
    rec.validated += 1


def valid_linear(path, n):
    cur = n
    for con in path:
        con = list(con)
        if len(set(con)) != len(con) or any(not (0 <= c < cur) for c in con):
            return False
        cur -= len(con) - 1
    return cur == 1


def run_item(item, rec):
    warnings.simplefilter("ignore")
    (run_F if item["kind"] == "F" else run_H)(item, rec)


def replay(v):
    warnings.simplefilter("ignore")
    from cotengra.core import ContractionTree
    from cotengra.pathfinders.path_basic import ReusableRandomGreedyOptimizer
    from cotengra.reusable import hash_contraction

    case = v["case"]
    if case["kind"] == "F":
        if v.get("size") is None:
            return True, "the default fingerprint does not identify contractions that differ only in index order"
        size = {k: int(x) for k, x in v["size"].items()}
        size2 = {k: int(x) for k, x in v["size2"].items()}
        in1, out1, in2, out2 = tuple(case["inputs"]), case["output"], tuple(case["inputs2"]), case["output2"]
        h1 = hash_contraction(in1, out1, size, case["hash"])
        h2 = hash_contraction(in2, out2, size2, case["hash"])
        if h1 != h2:
            return False, "real fingerprints differ"
        # real optimizer: search q1, then q2 is answered from the cache
        labels = skel.all_labels(in1)
        opt = ReusableRandomGreedyOptimizer(max_repeats=4, seed=0, accel=False, parallel=False, hash_method=case["hash"])
        n = len(in1)
        t1 = ContractionTree.from_path(in1, out1, size, ssa_path=skel.all_trees(n)[0])
        t1.remove_ind_(labels[-1])
        opt._cache[opt.hash_query(in1, out1, size)[0]] = {"path": t1.get_path(), "score": 0.0, "sliced_inds": (labels[-1],)}
        try:
            t2 = ContractionTree.from_path(in2, out2, size2, path=opt._cache[opt.hash_query(in2, out2, size2)[0]]["path"])
            t2.remove_ind_(labels[-1])
        except Exception as e:  # noqa
            return True, f"{in1}->{out1} and {in2}->{out2} share fingerprint '{case['hash']}' but the stored entry cannot be rebuilt for the second: {e!r}"
        s1, s2 = t1.contract_stats(), t2.contract_stats()
        if dict(s1) != dict(s2):
            return True, f"{','.join(in1)}->{out1} and {','.join(in2)}->{out2} (sizes {size}) share fingerprint '{case['hash']}'; stored tree costs {dict(s1)}, the same entry applied to the second contraction costs {dict(s2)}"
        return False, "shared entry is equally valid"
    # (H): rerun the sequence concretely with seeds
    for seed in range(6):
        work = tempfile.mkdtemp(prefix="verif_c14_replay_")
        try:
            d = os.path.join(work, "d") if case["disk"] else None
            opt = make_opt(case["opt"], d, case["overwrite"], seed=seed, minimize=case.get("minimize"))
            stored = {}
            for qi, fresh, mode in case["seq"]:
                inputs, output, size = POOL[qi]
                if fresh:
                    opt = make_opt(case["opt"], d, case["overwrite"], seed=seed + 100, minimize=case.get("minimize"))
                h, missing = opt.hash_query(inputs, output, size)
                try:
                    if mode == 2:
                        opt.cache_only = True
                        try:
                            tree = opt.search(inputs, output, size)
                        except KeyError:
                            tree = None
                        finally:
                            opt.cache_only = False
                    elif mode == 1:
                        opt(inputs, output, size)
                        tree = None
                    else:
                        tree = opt.search(inputs, output, size)
                except Exception as e:  # noqa
                    return True, f"sequence {case['seq']} raised {e!r}"
                if tree is not None:
                    con = opt._cache[h]
                    if tuple(tree.inputs) != tuple(inputs) or tree.N != len(inputs) or not tree.is_complete():
                        return True, f"sequence {case['seq']}: query {qi} answered with a tree of another contraction (N={tree.N})"
                    if tuple(tree.sliced_inds) != tuple(con["sliced_inds"]):
                        return True, f"sequence {case['seq']}: sliced indices differ from the stored ones"
                    if case.get("minimize") and abs(tree.get_score() - con["score"]) > 1e-4:
                        return True, (f"optimizer built with minimize={case['minimize']!r}, sequence {case['seq']}: the returned tree scores {tree.get_score():.6f} "
                                      f"(objective {tree.get_default_objective()!r}) but the stored score is {con['score']:.6f}")
                    key = str(h)
                    if key in stored and case["overwrite"] == "improved" and con["score"] > stored[key] + 1e-12:
                        return True, f"overwrite='improved' made the stored score worse ({stored[key]} -> {con['score']})"
                    stored[key] = con["score"]
        finally:
            shutil.rmtree(work, ignore_errors=True)
    return False, "sequence behaves correctly on 6 seeded runs"


if __name__ == "__main__":
    sys.exit(main("checks.c14"))
