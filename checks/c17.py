"""C17 -- operations that take a seed are deterministic functions of their
arguments.

Non-interference by exhaustive symbolic environment: each seeded API is run
with a CONCRETE integer seed while
  (i)  every function of the process-global generator (the stdlib `random`
       module's random/randint/choice/choices/sample/shuffle/uniform/...) is a
       fresh solver variable per call, so one symbolic run covers every state
       the global generator could be in;
  (ii) a solver-chosen prefix of unrelated seeded calls precedes it, and the
       call is then repeated ("regardless of what was called before");
  (iii) sets of index labels built in the modules under test iterate in a
       solver-chosen order (NDSet: every permutation is a path), which models
       the interpreter's string-hash randomisation.
Assertion: the result is identical on ALL explored paths (and equal between
the first and the repeated call).  If the environment is never consulted the
run has exactly one path.
numpy's global generator is replaced by a tripwire (any use is a violation).
"""

import builtins
import contextlib
import json
import os
import random
import subprocess
import sys
import warnings

import numpy as np

from vlib import stubs, symx
from vlib.runner import main

VERIF_ROOT = __import__("os").path.dirname(__import__("os").path.dirname(__import__("os").path.abspath(__file__)))
PROPERTY = "C17"
STUBS = [
    "stdlib random module functions -> SymRng draws (a fresh solver variable per call: integers / positions symbolic; random(), uniform(), gauss(), expovariate() a solver-chosen member of a 3-4 point grid, so that the value survives math.log / float(); after the first 4 draws of a path the remaining draws come from one of 4 ordinary pseudo-random streams, the stream being solver-chosen); explicit random.Random(seed) instances stay real",
    "numpy.random global functions -> tripwire",
    "set/frozenset names in cotengra.{core,slicer,hypergraph,utils,scoring,pathfinders.path_basic,pathfinders.path_simulated_annealing,pathfinders.path_labels} -> NDSet: sets containing str iterate in a solver-chosen order; "
    "the functions of those modules run from code recompiled (on every run, from the current source) after an AST pass that wraps set displays, set comprehensions, binary - & | ^ (dict-view arithmetic) and set-returning method calls, so that builtin sets produced there are NDSets too",
]
ASSUMPTIONS = [
    "second NDSet pass ('ndworld'): one solver-chosen hash world per path (8 quick / 24 thorough), all sets of the run iterate by that world's ranking of their elements (the way one PYTHONHASHSEED orders them)",
    "NDSet is a per-iteration arbitrary order (an over-approximation of CPython's hash-dependent order: counterexamples are replayed under different PYTHONHASHSEED values before being reported)",
    "sets created inside C code (e.g. by a C-implemented helper returning a fresh set) are not intercepted",
]
OUTSIDE = ["numpy / kahypar / networkx internal generators given an explicit seed", "real CPython set-order semantics beyond the NDSet model", "process pools"]

INPUTS = ("ab", "bcx", "cdx", "de", "ea", "fx")
OUTPUT = "f"
SIZE = {"a": 2, "b": 3, "c": 2, "d": 3, "e": 2, "x": 2, "f": 2}


def base_tree():
    from cotengra.core import ContractionTree

    ssa = [(0, 1), (6, 2), (7, 3), (8, 4), (9, 5)]
    return ContractionTree.from_path(INPUTS, OUTPUT, SIZE, ssa_path=ssa)


# a larger network and a deliberately poor (balanced, input-order) starting tree: many different improvements are possible,
# so a draw taken from the wrong generator changes the RESULT, not merely the route to it
BIG_INPUTS = ("ej", "dg", "bcdh", "ae", "afgil", "bijk", "cfl", "hk")
BIG_OUTPUT = ""
BIG_SIZE = {"a": 2, "b": 3, "c": 2, "d": 2, "e": 3, "f": 2, "g": 2, "h": 3, "i": 2, "j": 2, "k": 2, "l": 3}


def big_tree():
    from cotengra.core import ContractionTree

    # balanced: which subtree a random expansion reaches really depends on the draws
    ssa = [(0, 1), (2, 3), (4, 5), (6, 7), (8, 9), (10, 11), (12, 13)]
    return ContractionTree.from_path(BIG_INPUTS, BIG_OUTPUT, BIG_SIZE, ssa_path=ssa)


OUT2_INPUTS = ("abp", "bc", "cdq", "de", "ef", "fa")  # a ring with two output legs: every bond scores alike
OUT2_OUTPUT = "pq"
OUT2_SIZE = {c: 2 for c in "abcdefpq"}


def out2_tree():
    from cotengra.core import ContractionTree

    return ContractionTree.from_path(OUT2_INPUTS, OUT2_OUTPUT, OUT2_SIZE, ssa_path=[(0, 1), (6, 2), (7, 3), (8, 4), (9, 5)])


def canon_tree(t):
    return (tuple(map(tuple, t.get_path())), tuple((k, v.project) for k, v in t.sliced_inds.items()))


def canon(x):
    from cotengra.core import ContractionTree

    if isinstance(x, ContractionTree):
        return canon_tree(x)
    if isinstance(x, dict):
        return tuple((k, canon(v)) for k, v in x.items())
    if isinstance(x, (list, tuple)):
        return tuple(canon(v) for v in x)
    if isinstance(x, (set, frozenset)):
        return tuple(sorted(map(repr, x)))
    if isinstance(x, np.ndarray):
        return tuple(np.round(x, 12).ravel().tolist())
    if isinstance(x, float):
        return round(x, 12)
    return x


def apis():
    import cotengra as ctg
    from cotengra import utils as U
    from cotengra.core import PartitionTreeBuilder
    from cotengra.pathfinders import path_basic as PB
    from cotengra.pathfinders.path_labels import labels_partition
    from cotengra.pathfinders.path_random import RandomOptimizer
    from cotengra.slicer import SliceFinder

    def sliced_tree():
        t = base_tree()
        t.remove_ind_("x")
        t.remove_ind_("a")
        return t

    return {
        "optimize_random_greedy_track_flops": lambda s: PB.optimize_random_greedy_track_flops(INPUTS, OUTPUT, SIZE, ntrials=3, seed=s),
        "RandomGreedyOptimizer": lambda s: PB.RandomGreedyOptimizer(max_repeats=3, seed=s, accel=False, parallel=False)(INPUTS, OUTPUT, SIZE),
        "RandomOptimizer": lambda s: RandomOptimizer(seed=s)(INPUTS, OUTPUT, SIZE),
        "labels_partition": lambda s: labels_partition(INPUTS, OUTPUT, SIZE, parts=2, seed=s),
        "PartitionTreeBuilder.build_divide": lambda s: PartitionTreeBuilder(labels_partition).build_divide(INPUTS, OUTPUT, SIZE, cutoff=2, seed=s),
        "PartitionTreeBuilder.build_agglom": lambda s: PartitionTreeBuilder(labels_partition).build_agglom(INPUTS, OUTPUT, SIZE, groupsize=2, seed=s),
        "tree.slice": lambda s: base_tree().slice(target_size=4, seed=s),
        "SliceFinder.search": lambda s: sorted(SliceFinder(base_tree(), target_slices=4, seed=s).search(3)[0]),
        "subtree_reconfigure": lambda s: base_tree().subtree_reconfigure(subtree_size=3, select="random", subtree_search="random", maxiter=3, seed=s),
        "subtree_reconfigure_forest": lambda s: base_tree().subtree_reconfigure_forest(num_trees=2, num_restarts=1, subtree_maxiter=2, subtree_size=3, parallel=False, seed=s),
        "simulated_anneal": lambda s: base_tree().simulated_anneal(tsteps=2, numiter=2, seed=s),
        "simulated_anneal[slicing]": lambda s: base_tree().simulated_anneal(tsteps=2, numiter=1, target_size=4, slice_mode="drift", seed=s),
        "parallel_temper": lambda s: base_tree().parallel_temper(tsteps=1, num_trees=2, numiter=1, parallel=False, seed=s),
        "unslice_rand": lambda s: sliced_tree().unslice_rand(seed=s),
        "get_subtree[random]": lambda s: base_tree().get_subtree(base_tree().root, 3, search="random", seed=s),
        "rand_equation": lambda s: tuple(U.rand_equation(5, 3, n_out=1, n_hyper_in=1, seed=s)),
        "rand_tree": lambda s: U.rand_tree(5, 3, n_out=1, seed=s),
        "tree_equation": lambda s: tuple(U.tree_equation(5, n_outer=1, seed=s)),
        "randreg_equation": lambda s: tuple(U.randreg_equation(6, 3, seed=s)),
        "perverse_equation": lambda s: tuple(U.perverse_equation(4, 5, seed=s)),
        "lattice_equation": lambda s: tuple(U.lattice_equation((2, 2), d_min=2, d_max=4, seed=s)),
        "make_rand_size_dict_from_inputs": lambda s: U.make_rand_size_dict_from_inputs(INPUTS, seed=s),
        "make_arrays_from_inputs": lambda s: U.make_arrays_from_inputs(INPUTS, SIZE, seed=s),
        "jitter_dict": lambda s: __import__("cotengra.core", fromlist=["x"]).jitter_dict(SIZE, 0.1, s),
        # --- the larger network, one improvement step at a time, non-default modes
        "subtree_reconfigure[big,select=random,search=random,1 step]": lambda s: big_tree().subtree_reconfigure(subtree_size=3, select="random", subtree_search="random", maxiter=1, seed=s),
        "subtree_reconfigure[big,select=max,search=random]": lambda s: big_tree().subtree_reconfigure(subtree_size=3, select="max", subtree_search="random", maxiter=2, seed=s),
        "subtree_reconfigure[big,select=random,search=bfs]": lambda s: big_tree().subtree_reconfigure(subtree_size=4, select="random", subtree_search="bfs", maxiter=1, seed=s),
        "subtree_reconfigure_forest[big,search=random]": lambda s: big_tree().subtree_reconfigure_forest(num_trees=2, num_restarts=1, subtree_maxiter=1, subtree_size=3, subtree_search=("random",), parallel=False, seed=s),
        "subtree_reconfigure_forest[big,defaults]": lambda s: big_tree().subtree_reconfigure_forest(num_trees=2, num_restarts=2, subtree_maxiter=1, subtree_size=3, parallel=False, seed=s),
        "simulated_anneal[big,basic]": lambda s: big_tree().simulated_anneal(tsteps=2, numiter=2, target_size=16, slice_mode="basic", seed=s),
        "simulated_anneal[big,reslice]": lambda s: big_tree().simulated_anneal(tsteps=2, numiter=2, target_size=16, slice_mode="reslice", seed=s),
        "simulated_anneal[big,drift]": lambda s: big_tree().simulated_anneal(tsteps=2, numiter=2, target_size=16, slice_mode="drift", seed=s),
        "simulated_anneal[big,unslice=1]": lambda s: big_tree().simulated_anneal(tsteps=2, numiter=2, target_size=16, slice_mode=1, seed=s),
        "parallel_temper[big,reslice]": lambda s: big_tree().parallel_temper(tsteps=1, num_trees=2, numiter=1, target_size=16, slice_mode="reslice", parallel=False, seed=s),
        "parallel_temper[big,basic,time]": lambda s: big_tree().parallel_temper(tsteps=2, num_trees=2, numiter=1, target_size=16, slice_mode="basic", parallel_slice_mode="time", parallel=False, seed=s),
        "parallel_temper[big,drift,constant]": lambda s: big_tree().parallel_temper(tsteps=1, num_trees=3, numiter=1, target_size=16, slice_mode="drift", parallel_slice_mode="constant", parallel=False, seed=s),
        "tree.slice[big,reslice]": lambda s: big_tree().slice(target_size=32, seed=s).slice(target_size=8, reslice=True, seed=s),
        "tree.slice[big,target_overhead]": lambda s: big_tree().slice(target_overhead=1.5, temperature=0.5, seed=s),
        "SliceFinder.search[big,temperature]": lambda s: sorted(SliceFinder(big_tree(), target_size=16, temperature=0.3, seed=s).search(4)[0]),
        "RandomGreedyOptimizer[big]": lambda s: PB.RandomGreedyOptimizer(max_repeats=4, temperature=0.5, seed=s, accel=False, parallel=False)(BIG_INPUTS, BIG_OUTPUT, BIG_SIZE),
        "RandomOptimizer[big]": lambda s: RandomOptimizer(seed=s)(BIG_INPUTS, BIG_OUTPUT, BIG_SIZE),
        "build_divide[big]": lambda s: PartitionTreeBuilder(labels_partition).build_divide(BIG_INPUTS, BIG_OUTPUT, BIG_SIZE, cutoff=3, parts=2, seed=s),
        "build_agglom[big]": lambda s: PartitionTreeBuilder(labels_partition).build_agglom(BIG_INPUTS, BIG_OUTPUT, BIG_SIZE, groupsize=3, seed=s),
        "GreedyCompressed[temperature]": lambda s: __import__("cotengra.pathfinders.path_compressed_greedy", fromlist=["x"]).GreedyCompressed(chi=4, temperature=0.5, seed=s).get_ssa_path(list(BIG_INPUTS), BIG_OUTPUT, BIG_SIZE),
        "GreedySpan[temperature]": lambda s: __import__("cotengra.pathfinders.path_compressed_greedy", fromlist=["x"]).GreedySpan(temperature=0.5, seed=s).get_ssa_path(list(BIG_INPUTS), BIG_OUTPUT, BIG_SIZE),
        "make_arrays_from_eq": lambda s: U.make_arrays_from_eq("ab,bc->ac", seed=s),
        # --- outer (output) indices forbidden / required: two output indices, uniform sizes (near-tied scores)
        "tree.slice[allow_outer=False]": lambda s: out2_tree().slice(target_slices=4, allow_outer=False, temperature=0.5, seed=s),
        "tree.slice[allow_outer=only]": lambda s: out2_tree().slice(target_slices=2, allow_outer="only", temperature=0.5, seed=s),
        "SliceFinder.search[allow_outer=False]": lambda s: sorted(SliceFinder(out2_tree(), target_slices=4, allow_outer=False, temperature=0.5, seed=s).search(3)[0]),
    }


def bounds(tier):
    return dict(apis=sorted(apis_names()), seeds=[7, 11], prefix="0..1 unrelated seeded calls (solver-chosen) before, then the call is repeated", paths="<=150 per (api, seed) quick / <=1500 thorough",
                ndset="quick: global-RNG + prefix only for all APIs, NDSet pass for all APIs with <=40 paths; thorough: <=600 paths")


def apis_names():
    return list(apis())


def items(tier, seed):
    its = []
    for name in apis_names():
        for s in (7, 11):
            its.append({"api": name, "seed": s, "mode": "global", "tier": tier})
        its.append({"api": name, "seed": 7, "mode": "ndset", "tier": tier})
        its.append({"api": name, "seed": 7, "mode": "ndworld", "tier": tier})
    return its


# ---------------------------------------------------------------------------
# environment stubs


class NumpyGlobalRngUsed(Exception):
    pass


_RANDOM_FUNCS = ["random", "uniform", "randint", "randrange", "choice", "choices", "sample", "shuffle", "gauss", "normalvariate", "expovariate", "getrandbits", "betavariate",
                 "gammavariate", "lognormvariate", "triangular", "vonmisesvariate", "paretovariate", "weibullvariate", "randbytes"]
_NP_FUNCS = ["rand", "randn", "randint", "random", "random_sample", "choice", "shuffle", "permutation", "uniform", "normal", "seed", "exponential", "integers"]


@contextlib.contextmanager
def symbolic_globals():
    g = stubs.SymRng("glob", uniform_mode="grid", random_mode="grid", free_draws=4)
    saved = {f: getattr(random, f) for f in _RANDOM_FUNCS if hasattr(random, f)}
    saved_np = {f: getattr(np.random, f) for f in _NP_FUNCS if hasattr(np.random, f)}

    def trip(*a, **k):
        raise NumpyGlobalRngUsed()

    try:
        for f in saved:
            if hasattr(g, f):
                setattr(random, f, getattr(g, f))
        for f in saved_np:
            setattr(np.random, f, trip)
        yield g
    finally:
        for f, v in saved.items():
            setattr(random, f, v)
        for f, v in saved_np.items():
            setattr(np.random, f, v)


class NDSetMixin:
    """iteration order of str elements is solver-chosen (fresh per iteration)"""

    def _nd_iter(self, base_iter):
        items = list(base_iter)
        if len(items) > 1 and any(isinstance(x, str) for x in items) and symx.CTX is not None and NDSTATE["on"]:
            NDSTATE["consulted"] += 1
            if NDSTATE.get("worlds"):
                # one solver-chosen 'hash world' per path: every set of the run iterates by the same world-dependent ranking
                # of its elements (as under one PYTHONHASHSEED), instead of an independent arbitrary order per iteration
                if NDSTATE.get("world") is None:
                    NDSTATE["world"] = symx.choose("hash_world", NDSTATE["worlds"])
                w = NDSTATE["world"]
                import hashlib

                return iter(sorted(items, key=lambda x: hashlib.md5((str(w) + repr(x)).encode()).digest()))
            out = []
            pool = sorted(items, key=repr)
            while pool:
                out.append(pool.pop(symx.choose("nd", len(pool))))
            return iter(out)
        return iter(items)


NDSTATE = {"on": False, "consulted": 0, "worlds": 0, "world": None}


def _wrap_result(cls, r):
    if type(r) is set:
        return NDSet(r)
    if type(r) is frozenset:
        return NDFrozenSet(r)
    return r


class NDSet(NDSetMixin, set):
    def __iter__(self):
        return self._nd_iter(set.__iter__(self))

    def pop(self):
        for x in self:
            set.discard(self, x)
            return x
        raise KeyError("pop from an empty set")

    def copy(self):
        return NDSet(set.copy(self))


class NDFrozenSet(NDSetMixin, frozenset):
    def __iter__(self):
        return self._nd_iter(frozenset.__iter__(self))

    def copy(self):
        return self


for _name in ("union", "intersection", "difference", "symmetric_difference", "__or__", "__and__", "__sub__", "__xor__", "__ror__", "__rand__", "__rsub__", "__rxor__"):
    def _mk(name):
        def f(self, *others):
            base = set if isinstance(self, set) else frozenset
            return _wrap_result(type(self), getattr(base, name)(self, *others))
        return f
    setattr(NDSet, _name, _mk(_name))
    setattr(NDFrozenSet, _name, _mk(_name))

ND_MODULES = ["cotengra.core", "cotengra.slicer", "cotengra.hypergraph", "cotengra.utils", "cotengra.pathfinders.path_basic",
              "cotengra.pathfinders.path_simulated_annealing", "cotengra.pathfinders.path_labels", "cotengra.scoring"]


def _ndwrap(x):
    """builtin sets produced by displays, comprehensions, dict-view arithmetic or set methods become NDSets"""
    t = type(x)
    if t is set:
        return NDSet(x)
    if t is frozenset:
        return NDFrozenSet(x)
    return x


class _NDRewriter(__import__("ast").NodeTransformer):
    """wrap every expression that can evaluate to a builtin set: {..} displays, set comprehensions, binary - & | ^
    (dict views!), and calls of set-returning methods.  Regenerated from the module's current source on every run."""

    METHODS = {"union", "intersection", "difference", "symmetric_difference", "copy", "keys", "items", "fromkeys"}

    def _wrap(self, node):
        import ast

        return ast.copy_location(ast.Call(func=ast.Name(id="verif_ndwrap_", ctx=ast.Load()), args=[node], keywords=[]), node)

    def visit_Set(self, node):
        self.generic_visit(node)
        return self._wrap(node)

    def visit_SetComp(self, node):
        self.generic_visit(node)
        return self._wrap(node)

    def visit_BinOp(self, node):
        import ast

        self.generic_visit(node)
        if isinstance(node.op, (ast.Sub, ast.BitAnd, ast.BitOr, ast.BitXor)):
            return self._wrap(node)
        return node

    def visit_Call(self, node):
        import ast

        self.generic_visit(node)
        if isinstance(node.func, ast.Attribute) and node.func.attr in ("union", "intersection", "difference", "symmetric_difference"):
            return self._wrap(node)
        return node


def _code_by_qualname(code, out):
    for c in code.co_consts:
        if hasattr(c, "co_code"):
            out.setdefault((c.co_qualname, c.co_firstlineno), c)
            _code_by_qualname(c, out)
    return out


def _functions_of(mod):
    """every function object defined in the module (module level and in its classes)"""
    import types

    seen = []
    for obj in list(mod.__dict__.values()):
        if isinstance(obj, types.FunctionType) and obj.__module__ == mod.__name__:
            seen.append(obj)
        elif isinstance(obj, type) and obj.__module__ == mod.__name__:
            for v in list(obj.__dict__.values()):
                f = v
                if isinstance(v, (staticmethod, classmethod)):
                    f = v.__func__
                elif isinstance(v, property):
                    for g in (v.fget, v.fset, v.fdel):
                        if isinstance(g, types.FunctionType):
                            seen.append(g)
                    continue
                elif isinstance(v, __import__("functools").partialmethod):
                    continue
                if isinstance(f, types.FunctionType):
                    seen.append(f)
    return seen


def _rewrite_module(mod):
    """returns [(function, original code)] after swapping in code compiled from the rewritten source"""
    import ast

    src = open(mod.__file__).read()
    tree = _NDRewriter().visit(ast.parse(src))
    ast.fix_missing_locations(tree)
    table = _code_by_qualname(compile(tree, mod.__file__, "exec"), {})
    swapped = []
    for f in _functions_of(mod):
        c = f.__code__
        new = table.get((c.co_qualname, c.co_firstlineno))
        if new is not None and new.co_freevars == c.co_freevars:
            swapped.append((f, c))
            f.__code__ = new
    mod.__dict__["verif_ndwrap_"] = _ndwrap
    return swapped


@contextlib.contextmanager
def nd_sets():
    import importlib

    mods = [importlib.import_module(m) for m in ND_MODULES]
    saved = [(m, m.__dict__.get("set", None), m.__dict__.get("frozenset", None)) for m in mods]
    swapped = []
    try:
        for m in mods:
            m.set = NDSet
            m.frozenset = NDFrozenSet
            swapped += _rewrite_module(m)
        NDSTATE["on"] = True
        NDSTATE["consulted"] = 0
        NDSTATE["world"] = None
        NDSTATE["functions_rewritten"] = len(swapped)
        yield
    finally:
        NDSTATE["on"] = False
        for f, c in swapped:
            f.__code__ = c
        for m in mods:
            m.__dict__.pop("verif_ndwrap_", None)
        for m, s, f in saved:
            for name, v in (("set", s), ("frozenset", f)):
                if v is None:
                    m.__dict__.pop(name, None)
                else:
                    m.__dict__[name] = v


def set_display_scan():
    """AST scan: set displays / comprehensions are compiled to BUILD_SET and
    cannot be intercepted; list them."""
    import ast
    import importlib

    out = []
    for mn in ND_MODULES:
        m = importlib.import_module(mn)
        src = open(m.__file__).read()
        for node in ast.walk(ast.parse(src)):
            if isinstance(node, (ast.Set, ast.SetComp)):
                out.append(f"{os.path.relpath(m.__file__, '/repo')}:{node.lineno}")
    return out


# ---------------------------------------------------------------------------


def run_item(item, rec):
    warnings.simplefilter("ignore")
    import cotengra.pathfinders.path_simulated_annealing as SA
    import cotengra.slicer as SL

    name, seed, mode, tier = item["api"], item["seed"], item["mode"], item["tier"]
    table = apis()
    fn = table[name]
    others = [n for n in ("RandomOptimizer", "tree.slice", "simulated_anneal", "make_rand_size_dict_from_inputs") if n != name]
    results = {}
    consulted = {"global": 0, "nd": 0}

    def harness(ctx):
        with symbolic_globals() as g:
            NDSTATE["worlds"] = (8 if tier == "quick" else 24) if mode == "ndworld" else 0
            cm = nd_sets() if mode in ("ndset", "ndworld") else contextlib.nullcontext()
            with cm:
                try:
                    k = symx.choose("prefix", 1 + len(others)) if mode == "global" else 0
                    if k:
                        table[others[k - 1]](seed + 100)
                    r1 = canon(fn(seed))
                    table[others[0]](seed + 200)
                    r2 = canon(fn(seed))
                except NumpyGlobalRngUsed:
                    r1 = r2 = "NUMPY-GLOBAL-RNG-USED"
                consulted["global"] += len(g.draws)
                consulted["nd"] += NDSTATE["consulted"]
                script = None
                if g.draws:
                    m = ctx.model()
                    script = stubs.script_from_model_linked(m, g) if m is not None else None
        key = json.dumps([r1, r2], default=str, sort_keys=True)
        results.setdefault(key, script)
        rec.refute(ctx, r1 != r2, "same seed, same arguments, called twice -> same result",
                   lambda m: dict(api=name, seed=seed, mode=mode, kind="repeat", r1=str(r1)[:300], r2=str(r2)[:300], signature=["C17", name, "repeat"]))
        return key

    out = symx.explore(harness, max_paths=((150 if mode == "global" else 40) if tier == "quick" else (1500 if mode == "global" else 600)), deadline_s=(20 if tier == "quick" else 200))
    rec.add_explore(out)
    distinct = list(results)
    if out.paths == 0 and out.unsupported:
        return
    bad = len(distinct) > 1 or any("NUMPY-GLOBAL" in d for d in distinct)
    rec.obligations += 1
    if bad:
        rec._keep(dict(label="result identical on every path of the symbolic environment", api=name, seed=seed, mode=mode, kind="environment",
                       results=[d[:400] for d in distinct[:2]], global_draws=consulted["global"], nd_consulted=consulted["nd"], signature=["C17", name, mode, "environment"]))
    else:
        rec.discharged += 1
    rec.notes[f"env_consulted[{mode}]"] = rec.notes.get(f"env_consulted[{mode}]", 0) + int(consulted["global"] + consulted["nd"] > 0)
    rec.sample(dict(api=name, seed=seed, mode=mode, paths=out.paths, distinct_results=len(distinct), global_rng_draws=consulted["global"], nd_iterations=consulted["nd"]))
    if mode == "ndset" and name == "tree.slice":
        rec.notes["set_displays_not_intercepted"] = ", ".join(set_display_scan())
    rec.validated += 1


_CHILD = r"""
import sys, json, random, warnings
warnings.simplefilter("ignore")
sys.path.insert(0, __import__("os").environ["VERIF_ROOT"])
import numpy as np
from checks import c17
name, seed, gseed = sys.argv[1], int(sys.argv[2]), int(sys.argv[3])
random.seed(gseed); np.random.seed(gseed)
for _ in range(gseed % 7): random.random()
fn = c17.apis()[name]
r1 = c17.canon(fn(seed))
random.seed(gseed + 1)
r2 = c17.canon(fn(seed))
print(json.dumps([r1, r2], default=str))
"""


def replay(v):
    """two real processes: different global-generator states and different
    PYTHONHASHSEED values, same explicit seed."""
    name, seed = v["api"], v["seed"]
    outs = []
    for gseed, hseed in ((1, "1"), (2, "2"), (3, "77"), (4, "4242"), (5, "5"), (6, "606"), (7, "7"), (8, "80808")):
        env = dict(os.environ, PYTHONHASHSEED=hseed, PYTHONPATH=os.pathsep.join([VERIF_ROOT] + [x for x in os.environ.get("PYTHONPATH", "").split(os.pathsep) if x]), VERIF_ROOT=VERIF_ROOT)
        p = subprocess.run([sys.executable, "-W", "ignore", "-c", _CHILD, name, str(seed), str(gseed)], capture_output=True, text=True, env=env, timeout=300)
        if p.returncode != 0:
            return False, f"child failed: {p.stderr[-300:]}"
        r = json.loads(p.stdout.strip().splitlines()[-1])
        if r[0] != r[1]:
            return True, f"{name}(seed={seed}) returned different results when called twice in one process (global random state {gseed}): {str(r[0])[:120]} vs {str(r[1])[:120]}"
        outs.append(json.dumps(r[0]))
    if len(set(outs)) > 1:
        return True, f"{name}(seed={seed}) returned {len(set(outs))} different results across 8 processes that differ only in the global random state / PYTHONHASHSEED: {outs[0][:120]} vs {[o for o in outs if o != outs[0]][0][:120]}"
    return False, "identical in 8 processes with different global random state and hash seeds"


if __name__ == "__main__":
    sys.exit(main("checks.c17"))
