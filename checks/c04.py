"""C04 -- incrementally tracked costs equal a from-scratch rebuild after any
history.

(H) histories: the same level-wise driver as C02 (every RNG draw, index choice
    and projected value a solver variable; all operation sequences of length
    <= K over the menu, states de-duplicated).  After every operation the
    tree's contract_stats / total_* / max_size / multiplicity / sliced_inputs /
    preprocessing and every node's legs, involved, size and flops are compared
    with (i) a tree freshly built from (get_path, sliced/projected indices) --
    the oracle the property names -- and (ii) the definitional evaluator.
(S) slice-then-unslice with SYMBOLIC sizes: slice a solver-chosen sequence of
    indices (sliced or projected), unslice them in a solver-chosen order:
    after every step the figures equal the definition, and at the end they
    equal the original figures exactly (z3 identities over unbounded sizes).
"""

import sys
import warnings

import z3

from vlib import costs, history, skel, symx
from vlib.runner import main
from vlib.symx import term

PROPERTY = "C04"
STUBS = [
    "SymRng via seed=, GlobalRandomStub for seed-less calls, log stubs in path_simulated_annealing / slicer (as in C02)",
]
ASSUMPTIONS = [
    "(H) index sizes are concrete (optimisers take logarithms); (S) sizes are unbounded symbolic Ints >= 2",
    "legs COUNTS at the root are not compared (documented as irrelevant); index SETS are",
]
OUTSIDE = ["histories longer than K", "real process pools"]

NETWORKS = [
    (("aab", "abc", "cd", "d"), "", "diag-shared"),
    (("abx", "bcx", "cdx", "dx"), "a", "hyper-inner"),
    (("ab", "bc", "cd", "da"), "", "ring4"),
    (("ab", "bc", "cd", "de"), "ae", "chain4-out2"),
    (("abx", "bcx", "cdx"), "ax", "hyper-batch"),
    (("aab", "bc", "cd", "de"), "ea", "trace-leaf-out2"),
    (("ab", "bc", "", "cd"), "ad", "scalar-in"),
    (("ab", "bc", "cd", "d"), "a", "chain-vec"),
    (("ab", "bc", "cd", "de", "ea"), "", "ring5"),
    (("abc", "cde", "efa", "bdf"), "", "rank3-k4"),
    (("ab", "cd", "bd", "ac", "e"), "e", "disconnected"),
]


def bounds(tier):
    if tier == "quick":
        return dict(H="6 fixed networks x {greedy, caterpillar}, K=2, 21 operations, <=16 states carried to level 2 (round-robin over the kinds of the last operations), <=25 paths per (state, op)",
                    S="skeletons N<=3 rank<=2 (every 7th), all trees, <=2 indices sliced/projected then restored in any order, sizes symbolic >= 2")
    return dict(H="9 fixed networks, K=3, 31 operations, <=80 states per level", S="skeletons N<=3 (every 2nd) + N=4 (every 8th), <=3 indices")


def items(tier, seed):
    nets = NETWORKS[:8] if tier == "quick" else NETWORKS
    its = []
    for ni, (inputs, output, name) in enumerate(nets):
        for init in ("greedy", "caterpillar"):
            for sv in (0, 1):
                if tier == "quick" and sv != (ni + 1) % 2:
                    continue
                its.append({"kind": "H", "inputs": list(inputs), "output": output, "name": name, "init": init, "sizes": sv, "tier": tier})
    # deep annealing runs (see checks/c02.py): figures of the annealed tree vs a fresh rebuild
    for ni, (inputs, output, name) in enumerate(NETWORKS):
        if len(inputs) < 4:
            continue
        for mi, mode in enumerate(("basic", "reslice", 1, "drift")):
            if tier == "quick" and (ni + mi) % 4 != 1:
                continue
            its.append({"kind": "D", "inputs": list(inputs), "output": output, "name": name, "init": ("caterpillar" if (ni + mi) % 2 else "greedy"), "sizes": 0, "slice_mode": mode, "tier": tier})
            if tier != "quick" or (ni + mi) % 8 == 1:
                its.append({"kind": "D", "inputs": list(inputs), "output": output, "name": name, "init": ("caterpillar" if (ni + mi) % 2 else "greedy"), "sizes": 1, "slice_mode": mode, "tier": tier})
    sk = skel.skeletons(2, 2, 4, 1, outputs="unordered") + skel.skeletons(3, 2, 4, 1, outputs="unordered")
    sk = sk[::7] if tier == "quick" else sk[::2] + skel.skeletons(4, 2, 4, 1, max_positions=7, outputs="unordered")[::8]
    for i in range(0, len(sk), 2):
        its.append({"kind": "S", "skeletons": [[list(a), b] for a, b in sk[i : i + 2]], "tier": tier, "k": i})
    return its


def observe(tree):
    """everything the tree reports (concrete values or z3 terms)"""
    st = tree.contract_stats()
    obs = dict(flops=st["flops"], write=st["write"], size=st["size"], tf=tree.total_flops(), tw=tree.total_write(), ms=tree.max_size(),
               mult=tree.multiplicity, sliced_inputs=tuple(sorted(tree.sliced_inputs)), sliced=tuple((k, v.project, v.inner) for k, v in tree.sliced_inds.items()))
    nodes = {}
    for p in tree.children:
        nodes[tuple(sorted(p))] = (tuple(sorted(tree.get_legs(p))), tuple(sorted(tree.get_involved(p))), tree.get_size(p), tree.get_flops(p))
    for i in range(tree.N):
        leaf = frozenset([i])
        nodes[(i,)] = (tuple(sorted(tree.get_legs(leaf))), (), tree.get_size(leaf), 0)
    obs["nodes"] = nodes
    obs["pre"] = tuple(sorted(tree.preprocessing.items()))
    return obs


def rebuild(tree):
    from cotengra.core import ContractionTree

    t = ContractionTree.from_path(tree.inputs, tree.output, tree.size_dict, path=tree.get_path())
    for ix, si in tree.sliced_inds.items():
        if si.project is None:
            t.remove_ind_(ix)
        else:
            t.remove_ind_(ix, project=si.project)
    return t


def diff_obs(a, b):
    """list of differing keys (concrete) -- for the history part"""
    out = []
    for k in a:
        if k == "nodes":
            for n in set(a["nodes"]) | set(b["nodes"]):
                if a["nodes"].get(n) != b["nodes"].get(n):
                    out.append(f"node{list(n)}: {a['nodes'].get(n)} vs {b['nodes'].get(n)}")
        elif a[k] != b[k]:
            out.append(f"{k}: {a[k]} vs {b[k]}")
    return out


def definitional(tree):
    steps = list(tree.traverse())
    sliced = [ix for ix, si in tree.sliced_inds.items() if si.project is None]
    proj = [ix for ix, si in tree.sliced_inds.items() if si.project is not None]
    return costs.tree_costs(tree.inputs, tree.output, tree.size_dict, steps, sliced, proj)


def val(x):
    if z3.is_expr(x):
        return z3.simplify(x).as_long()
    return x


def check_state(tree):
    """concrete comparison; returns list of discrepancies"""
    t = tree.copy()
    a = observe(t)
    b = observe(rebuild(tree))
    out = diff_obs(a, b)
    d = definitional(tree)
    for k, dk in (("flops", "flops"), ("write", "write"), ("size", "size"), ("mult", "mult")):
        if tree.N > 1 and a[k] != val(d[dk]):
            out.append(f"{k}: tree {a[k]} vs definition {val(d[dk])}")
    for (p, f, s, inv, lp) in d["per_step"]:
        n = a["nodes"][tuple(sorted(p))]
        if n[0] != tuple(lp) or n[1] != tuple(inv) or n[2] != val(s) or n[3] != val(f):
            out.append(f"node{sorted(p)}: tree {n} vs definition {(tuple(lp), tuple(inv), val(s), val(f))}")
    return out


def run_H(item, rec):
    from checks.c02 import initial_tree, size_of

    tier = item["tier"]
    inputs, output = tuple(item["inputs"]), item["output"]
    labels = skel.all_labels(inputs)
    size = size_of(labels, item["sizes"])
    t0 = initial_tree(inputs, output, size, item["init"])
    max_size = max(t0.max_size(), 2)
    t0 = initial_tree(inputs, output, size, item["init"])
    case0 = dict(inputs=list(inputs), output=output, size=size, init=item["init"])
    env = {"arrays": None, "case": case0}

    def check(ctx, tree, hist):
        try:
            diffs = check_state(tree)
        except (symx.PathAbort, symx.Unsupported, symx.Budget):
            raise
        except Exception as e:  # noqa
            diffs = [f"cost query raised {e!r}"]
        rec.refute(ctx, bool(diffs), "tracked costs == fresh rebuild == definition",
                   lambda m: dict(case=case0, history=hist, diffs=diffs[:6], signature=["C04H", item["name"], item["init"], str([h["op"] for h in hist]), diffs[0][:40]]))
        warm = tree.copy()
        warm.contract_stats()
        return None

    menu = [m for m in history.op_menu(tier, max_size) if m[0] != "q_contract"]
    K = 2 if tier == "quick" else 3
    from checks.c02 import initial_states

    n_states = history.explore_histories(
        rec, initial_states(t0, labels, size), menu, K, check, env,
        max_states_per_level=int(__import__("os").environ.get("VERIF_HIST_STATES", 16 if tier == "quick" else 80)),
        max_paths_per_op=(25 if tier == "quick" else 400),
        deadline_per_op=(4.0 if tier == "quick" else 25.0),
    )
    rec.sample(dict(part="H", network=item["name"], init=item["init"], size=size, K=K, distinct_states=n_states))
    rec.validated += int(not check_state(initial_tree(inputs, output, size, item["init"]).subtree_reconfigure(subtree_size=3, maxiter=2)))


def run_S(item, rec):
    from cotengra.core import ContractionTree

    tier = item["tier"]
    maxk = 2 if tier == "quick" else 3
    for inputs, output in item["skeletons"]:
        inputs = tuple(inputs)
        n = len(inputs)
        labels = skel.all_labels(inputs)
        if not labels:
            continue
        for ssa in skel.all_trees(n):
            case = dict(kind="S", inputs=list(inputs), output=output, ssa=[list(p) for p in ssa])

            def harness(ctx, ssa=ssa, case=case):
                size = {c: symx.sym_int("d_" + c, 2) for c in labels}
                tree = ContractionTree.from_path(inputs, output, size, ssa_path=ssa)
                base = tree.contract_stats()
                base = dict(base)
                seq = []
                k = symx.choose("k", min(maxk, len(labels))) + 1
                rest = list(labels)
                bads = []
                for j in range(k):
                    ix = rest.pop(symx.choose(f"s{j}", len(rest)))
                    mode = symx.choose(f"m{j}", 2)
                    seq.append((ix, mode))
                    if mode == 0:
                        tree.remove_ind_(ix)
                    else:
                        tree.remove_ind_(ix, project=0)
                    bads += sym_diffs(tree)
                # unslice in a solver-chosen order, sometimes through a copy
                order = list(tree.sliced_inds)
                while order:
                    ix = order.pop(symx.choose("u", len(order)))
                    if symx.choose("cp", 2):
                        tree = tree.copy()
                    tree.restore_ind_(ix)
                    bads += sym_diffs(tree)
                end = tree.contract_stats()
                for q in ("flops", "write", "size"):
                    bads.append(term(end[q]) != term(base[q]))
                bads.append(term(tree.multiplicity) != 1)
                if tree.sliced_inds or tree.sliced_inputs:
                    bads.append(z3.BoolVal(True))
                if tree._track_size:
                    symx.keys_guard(tree._sizes._c)

                def viol(m):
                    return dict(case=case, seq=[[a, b] for a, b in seq], size={c: symx.eval_model(m, size[c]) for c in labels}, signature=["C04S", list(inputs), output, str(ssa), str(seq)])

                rec.refute(ctx, z3.Or(bads), "slice/unslice figures == definition and restore exactly", viol)

            rec.add_explore(symx.explore(harness, max_paths=3000, deadline_s=40))
        rec.sample(dict(part="S", inputs=list(inputs), output=output, sizes="symbolic >= 2", sequence="solver-chosen slice/project sequence, solver-chosen restore order, optional copies"))
    rec.validated += 1


def sym_diffs(tree):
    st = tree.contract_stats()
    d = definitional(tree)
    bads = [term(st["flops"]) != term(d["flops"]), term(st["write"]) != term(d["write"]), term(st["size"]) != term(d["size"]), term(tree.multiplicity) != term(d["mult"])]
    for (p, f, s, inv, lp) in d["per_step"]:
        bads.append(term(tree.get_flops(p)) != term(f))
        bads.append(term(tree.get_size(p)) != term(s))
        if sorted(tree.get_legs(p)) != lp or sorted(tree.get_involved(p)) != inv:
            bads.append(z3.BoolVal(True))
    return bads


def run_D(item, rec):
    from checks.c02 import deep_anneal, initial_tree, size_of
    from vlib import stubs

    tier = item["tier"]
    inputs, output = tuple(item["inputs"]), item["output"]
    labels = skel.all_labels(inputs)
    size = size_of(labels, item["sizes"])
    mode = item["slice_mode"]
    target = max(2, initial_tree(inputs, output, size, item["init"]).max_size() // 2)
    case0 = dict(inputs=list(inputs), output=output, size=size, init=item["init"], deep=True, slice_mode=mode, target=target)

    def harness(ctx):
        import random as _r

        _r.seed(4242)
        tree = initial_tree(inputs, output, size, item["init"])
        rng = stubs.SymRng("an", uniform_mode="grid", random_mode="grid", free_draws=5)
        rng.TAIL_STREAMS = 6

        def viol(m, diffs=()):
            return dict(case=case0, history=[], diffs=list(diffs)[:6], script=[[k, (list(x) if isinstance(x, (list, tuple)) else x)] for k, x in stubs.script_from_model(m, rng)],
                        signature=["C04deep", item["name"], item["init"], str(mode)] + [str(d)[:40] for d in list(diffs)[:1]])

        with rec.guarded(ctx, "tracked costs == fresh rebuild == definition after a multi-step annealing run", viol):
            deep_anneal(tree, rng, mode, target)
            diffs = check_state(tree)
        rec.refute(ctx, bool(diffs), "tracked costs == fresh rebuild == definition after a multi-step annealing run", lambda m: viol(m, diffs))

    out = symx.explore(harness, max_paths=(2500 if tier == "quick" else 40000), deadline_s=(25 if tier == "quick" else 300))
    rec.add_explore(out)
    rec.sample(dict(part="D", network=item["name"], deep_anneal=dict(tsteps=3, numiter=2, target_size=target, slice_mode=str(mode)), paths=out.paths))
    rec.validated += 1


def run_item(item, rec):
    warnings.simplefilter("ignore")
    {"H": run_H, "S": run_S, "D": run_D}[item["kind"]](item, rec)


def replay(v):
    warnings.simplefilter("ignore")
    from cotengra.core import ContractionTree

    case = v["case"]
    inputs, output = tuple(case["inputs"]), case["output"]
    if case.get("kind") == "S":
        size = {k: int(x) for k, x in v["size"].items()}
        tree = ContractionTree.from_path(inputs, output, size, ssa_path=[tuple(p) for p in case["ssa"]])
        base = dict(tree.contract_stats())
        for ix, mode in v["seq"]:
            tree.remove_ind_(ix) if mode == 0 else tree.remove_ind_(ix, project=0)
            d = check_state(tree)
            if d:
                return True, f"after slicing {v['seq']}: {d[:3]}"
        for ix in list(tree.sliced_inds):
            tree.restore_ind_(ix)
            d = check_state(tree)
            if d:
                return True, f"after restoring {ix}: {d[:3]}"
        if dict(tree.contract_stats()) != base:
            return True, f"slice/unslice {v['seq']} does not restore {base}: {tree.contract_stats()}"
        return False, "figures restored at the model sizes (the restore order of the model is not replayed)"
    from checks.c02 import initial_tree

    size = case["size"]
    if case.get("deep"):
        import random as _r

        from checks.c02 import deep_anneal
        from vlib import stubs

        _r.seed(4242)
        tree = initial_tree(inputs, output, size, case["init"])
        try:
            deep_anneal(tree, stubs.ScriptedRng([tuple(x) for x in v["script"]]), case["slice_mode"], case["target"])
            d = check_state(tree)
        except Exception as e:  # noqa
            if v.get("raised"):
                return True, f"simulated_anneal(tsteps=3, numiter=2, target_size={case['target']}, slice_mode={case['slice_mode']!r}) / cost queries raised {e!r} on the solver's draw sequence"
            return False, f"replay raised {e!r} (scripted rng diverged?)"
        if d:
            return True, f"{','.join(inputs)}->{output}: after simulated_anneal(tsteps=3, numiter=2, target_size={case['target']}, slice_mode={case['slice_mode']!r}) on the solver's draw sequence: {d[:3]}"
        return False, "figures agree with the rebuild on the recorded draw sequence"
    tree = initial_tree(inputs, output, size, case["init"])
    try:
        def observe(t):
            # the driver compares (a copy of) every state it reaches with a rebuild
            try:
                check_state(t)
            except Exception:  # noqa
                pass

        tree = history.replay_history(tree, v["history"], arrays=None, observe=observe)
    except Exception as e:  # noqa
        return False, f"replay of the history raised {e!r}"
    d = check_state(tree)
    if d:
        return True, f"after {[h['op'] for h in v['history']]}: {d[:3]}"
    return False, "tracked costs agree with the rebuild after the replayed history"


if __name__ == "__main__":
    sys.exit(main("checks.c04"))
