"""C05 -- every pathfinder returns a complete, well-formed contraction.

Symbolic / solver-chosen: Gumbel noise of greedy / random-greedy, costmod and
temperature (grid), every draw of RandomOptimizer and labels_partition
(SymRng), the cost_cap of optimal, the partitioner's RETURN VALUE (an arbitrary
membership vector in range(parts)^n: covers one community, parts >= nodes, no
edges, ... without needing kahypar to produce them), parts / cutoff /
groupsize, explicit (partial) linear / ssa / edge paths.
Enumerated: skeletons incl. 1- and 2-tensor cases, scalars, disconnected
parts, hyper and repeated indices.
Assertion: returned linear paths only reference positions that exist at that
step and end with one tensor; returned trees are complete: every input consumed
exactly once, every internal node the disjoint union of its two children.
"""

import sys
import warnings

from vlib import skel, stubs, symx
from vlib.runner import main

PROPERTY = "C05"
STUBS = [
    "partition_fn stub for PartitionTreeBuilder: returns a solver-chosen membership vector (the documented contract of partition_fn)",
    "SymGumbel for path_basic.GumbelBatchedGenerator; SymRng (grid) via seed=",
]
ASSUMPTIONS = ["concrete index sizes (two patterns)", "kahypar itself is run concretely (real library) on a subset, its output is not symbolic"]
OUTSIDE = ["quickbb / flowcutter (external binaries)", "igraph / optuna based methods", "networks beyond the bound"]

FIXED = [
    (("ab", "cd", "ef"), ""),  # fully disconnected
    (("ab", "bc", "de", "ef"), "af"),  # two components
    (("", "", "ab", "ab"), ""),  # scalars + hadamard
    (("abc", "bcd", "cde", "dea", "eab"), ""),
    (("ax", "bx", "cx", "dx"), "x"),  # hyper/batch index
    (("aab", "bcc", "cd", "d"), ""),
    (("a",), "a"),
    (("ab",), ""),
    (("aa",), ""),
]


def bounds(tier):
    return dict(skeletons=("N<=3 rank<=2 (every 11th) + 9 fixed networks (disconnected, scalars, hyper, repeated, 1-tensor)" if tier == "quick" else "N<=3 rank<=2 (every 2nd), N=4 (every 12th) + fixed"),
                finders=["presets greedy/optimal/optimal-outer/auto/auto-hq/random via array_contract_path, array_contract_tree, find_path, find_tree", "optimize_greedy/optimal/random_greedy_track_flops (symbolic noise, cost_cap)", "RandomGreedyOptimizer, RandomOptimizer(SymRng)",
                         "PartitionTreeBuilder.build_divide/build_agglom with stub partitioner and with labels_partition(SymRng)", "kahypar (real, concrete seeds)", "explicit partial linear/ssa/edge paths with autocomplete"])


def items(tier, seed):
    sk = skel.skeletons(1, 2, 3, 1, outputs="unordered") + skel.skeletons(2, 2, 4, 1, outputs="unordered") + skel.skeletons(3, 2, 4, 1, outputs="unordered")
    sk = sk[::11] if tier == "quick" else sk[::2] + skel.skeletons(4, 2, 4, 1, max_positions=7, outputs="unordered")[::12]
    sk = [(tuple(a), b) for a, b in sk] + FIXED
    its = []
    for i in range(0, len(sk), 2):
        its.append({"skeletons": [[list(a), b] for a, b in sk[i : i + 2]], "tier": tier, "k": i})
    return its


def valid_linear(path, n):
    cur = n
    for con in path:
        con = list(con)
        if len(con) < 1 or len(set(con)) != len(con) or any(not (isinstance(c, int) and 0 <= c < cur) for c in con):
            return False
        cur -= len(con) - 1
    return cur == 1


def tree_ok(tree, inputs):
    n = len(inputs)
    if tree.N != n:
        return f"tree.N={tree.N} for {n} inputs"
    try:
        if not tree.is_complete():
            return "tree.is_complete() is False"
    except Exception as e:  # noqa
        return f"is_complete raised {e!r}"
    if n == 1:
        return None
    full = frozenset(range(n))
    if full not in tree.children:
        return "root has no children"
    internal = 0
    stack = [full]
    seen_leaves = []
    while stack:
        p = stack.pop()
        if len(p) == 1:
            seen_leaves.append(next(iter(p)))
            continue
        if p not in tree.children:
            return f"node {sorted(p)} has no children"
        l, r = tree.children[p]
        if (l | r) != p or (l & r):
            return f"node {sorted(p)} is not the disjoint union of {sorted(l)} and {sorted(r)}"
        internal += 1
        stack += [l, r]
    if sorted(seen_leaves) != list(range(n)):
        return f"leaves reached {sorted(seen_leaves)}"
    if internal != n - 1 or len(tree.children) != n - 1:
        return f"{len(tree.children)} internal nodes for {n} inputs"
    return None


def sizes_for(labels, v):
    if v == 0:
        return {c: 2 + (i % 2) for i, c in enumerate(labels)}
    s = {c: 3 - (i % 2) for i, c in enumerate(labels)}
    if labels:
        s[labels[0]] = 1
    return s


def finder_calls(inputs, output, size):
    """list of (name, thunk) -> ('path', p) or ('tree', t)"""
    import cotengra as ctg
    from cotengra.core import PartitionTreeBuilder
    from cotengra.pathfinders import path_basic as PB
    from cotengra.pathfinders.path_labels import labels_partition
    from cotengra.pathfinders.path_random import RandomOptimizer

    n = len(inputs)
    labels = skel.all_labels(inputs)
    calls = []
    for preset in ("greedy", "optimal", "optimal-outer", "auto", "auto-hq", "random"):
        calls.append((f"array_contract_path[{preset}]", lambda p=preset: ("path", ctg.array_contract_path(inputs, output, size, optimize=p, cache=False))))
        calls.append((f"array_contract_tree[{preset}]", lambda p=preset: ("tree", ctg.array_contract_tree(inputs, output, size, optimize=p))))
        calls.append((f"find_path[{preset}]", lambda p=preset: ("path", ctg.interface.find_path(inputs, output, size, optimize=p))))
        calls.append((f"find_tree[{preset}]", lambda p=preset: ("tree", ctg.interface.find_tree(inputs, output, size, optimize=p))))

    def opt_optimal():
        mn = ["flops", "size", "write", "max", "combo", "limit"][symx.choose("min", 6)]
        outer = bool(symx.choose("outer", 2))
        cap = symx.sym_int("cap", 1, 64)
        return "path", PB.optimize_optimal(inputs, output, size, minimize=mn, cost_cap=cap, search_outer=outer)

    calls.append(("optimize_optimal", opt_optimal))

    def opt_greedy():
        cm = [0.1, 1.0, 4.0][symx.choose("cm", 3)]
        T = [0.0, 0.5][symx.choose("T", 2)]
        return "path", PB.optimize_greedy(inputs, output, size, costmod=cm, temperature=T, simplify=bool(symx.choose("simp", 2)) or True)

    calls.append(("optimize_greedy", opt_greedy))
    calls.append(("optimize_random_greedy_track_flops", lambda: ("path", PB.optimize_random_greedy_track_flops(inputs, output, size, ntrials=1, seed=stubs.SymRng("rg", uniform_mode="grid"))[0])))
    calls.append(("RandomGreedyOptimizer.search", lambda: ("tree", PB.RandomGreedyOptimizer(max_repeats=1, seed=stubs.SymRng("rgo", uniform_mode="grid"), accel=False, parallel=False).search(inputs, output, size))))
    calls.append(("optimize_random_greedy_track_flops[2 trials]", lambda: ("path", PB.optimize_random_greedy_track_flops(inputs, output, size, ntrials=2, seed=stubs.SymRng("rg2", uniform_mode="grid"))[0])))
    calls.append(("RandomGreedyOptimizer[2 repeats] (path)", lambda: ("path", PB.RandomGreedyOptimizer(max_repeats=2, seed=stubs.SymRng("rgp", uniform_mode="grid"), accel=False, parallel=False)(inputs, output, size))))
    calls.append(("RandomGreedyOptimizer[2 repeats].search", lambda: ("tree", PB.RandomGreedyOptimizer(max_repeats=2, seed=stubs.SymRng("rgs", uniform_mode="grid"), accel=False, parallel=False).search(inputs, output, size))))
    calls.append(("RandomOptimizer", lambda: ("path", RandomOptimizer(seed=stubs.SymRng("ro", max_draws=4 * n + 6))(inputs, output, size))))
    calls.append(("RandomOptimizer.search", lambda: ("tree", RandomOptimizer(seed=stubs.SymRng("ro", max_draws=4 * n + 6)).search(inputs, output, size))))
    calls.append(("GreedyOptimizer.search", lambda: ("tree", PB.GreedyOptimizer().search(inputs, output, size))))
    calls.append(("OptimalOptimizer.search", lambda: ("tree", PB.OptimalOptimizer(search_outer=bool(symx.choose("o", 2))).search(inputs, output, size))))

    def stub_partition(inputs_, output_, size_, parts=2, **kw):
        return [symx.choose("mem", max(1, int(parts))) for _ in range(len(inputs_))]

    def divide_stub():
        cutoff = 1 + symx.choose("cutoff", 2)
        parts = 2 + symx.choose("parts", 2)
        return "tree", PartitionTreeBuilder(stub_partition).build_divide(inputs, output, size, cutoff=cutoff, parts=parts, parts_decay=[0.0, 0.5, 1.0][symx.choose("pd", 3)],
                                                                         sub_optimize="greedy", super_optimize="greedy", seed=stubs.SymRng("bd"))

    def agglom_stub():
        gs = 1 + symx.choose("gs", 3)
        return "tree", PartitionTreeBuilder(stub_partition).build_agglom(inputs, output, size, groupsize=gs, sub_optimize="greedy", seed=stubs.SymRng("ba"))

    if n >= 2:
        calls.append(("build_divide[stub partitioner]", divide_stub))
        calls.append(("build_agglom[stub partitioner]", agglom_stub))
        if labels:
            calls.append(("build_divide[labels_partition]", lambda: ("tree", PartitionTreeBuilder(labels_partition).build_divide(inputs, output, size, cutoff=1, parts=2, sub_optimize="greedy", super_optimize="greedy", seed=stubs.SymRng("ld")))))
            calls.append(("build_agglom[labels_partition]", lambda: ("tree", PartitionTreeBuilder(labels_partition).build_agglom(inputs, output, size, groupsize=2, sub_optimize="greedy", seed=stubs.SymRng("la")))))

    # explicit partial paths, completed automatically
    from cotengra.core import ContractionTree

    def partial_linear():
        steps = symx.choose("nsteps", n)  # 0..n-1 steps
        path = []
        cur = n
        for k in range(steps):
            i = symx.choose(f"i{k}", cur)
            j = symx.choose(f"j{k}", cur - 1)
            j = j if j < i else j + 1
            path.append((i, j))
            cur -= 1
        return "tree", ContractionTree.from_path(inputs, output, size, path=path, autocomplete=True)

    def partial_edge():
        rest = list(labels)
        ep = []
        for k in range(symx.choose("ne", len(labels) + 1)):
            ep.append(rest.pop(symx.choose(f"e{k}", len(rest))))
        return "tree", ContractionTree.from_path(inputs, output, size, edge_path=ep, autocomplete=True)

    if n >= 2:
        calls.append(("from_path[partial linear path, autocomplete]", partial_linear))
        calls.append(("from_path[partial edge path, autocomplete]", partial_edge))
        calls.append(("array_contract_tree[edge path]", lambda: ("tree", ctg.array_contract_tree(inputs, output, size, optimize=tuple(labels), canonicalize=False)) if labels else ("skip", None)))
    return calls


def kahypar_calls(inputs, output, size):
    from cotengra.core import PartitionTreeBuilder
    from cotengra.pathfinders.path_kahypar import kahypar_subgraph_find_membership as km

    n = len(inputs)
    calls = []
    if n >= 2:
        for seed in (0, 1):
            for parts in (2, 3):
                calls.append((f"kahypar build_divide[parts={parts},seed={seed}]", lambda s=seed, p=parts: ("tree", PartitionTreeBuilder(km).build_divide(inputs, output, size, cutoff=1, parts=p, sub_optimize="greedy", super_optimize="greedy", seed=s))))
            calls.append((f"kahypar build_divide[fix_output_nodes,seed={seed}]", lambda s=seed: ("tree", PartitionTreeBuilder(km).build_divide(inputs, output, size, cutoff=1, parts=2, fix_output_nodes="auto", sub_optimize="greedy", super_optimize="greedy", seed=s))))
            calls.append((f"kahypar build_agglom[seed={seed}]", lambda s=seed: ("tree", PartitionTreeBuilder(km).build_agglom(inputs, output, size, groupsize=2, sub_optimize="greedy", seed=s))))
    return calls


def run_item(item, rec):
    warnings.simplefilter("ignore")
    import random as _r

    import cotengra.pathfinders.path_basic as PB

    orig_g = PB.GumbelBatchedGenerator
    tier = item["tier"]
    try:
        for inputs, output in item["skeletons"]:
            inputs = tuple(inputs)
            n = len(inputs)
            labels = skel.all_labels(inputs)
            for sv in (0, 1):
                size = sizes_for(labels, sv)
                names = [nm for nm, _ in finder_calls(inputs, output, size)]
                for ci, name in enumerate(names):
                    case = dict(inputs=list(inputs), output=output, size=size, finder=name)

                    def harness(ctx, ci=ci, case=case):
                        _r.seed(99)
                        PB.GumbelBatchedGenerator = stubs.SymGumbel
                        stubs.SymGumbel.log = []
                        stubs.SymRng.instances = []

                        def scripts(m):
                            return dict(gumbel=[float(symx.eval_model(m, g)) for g in stubs.SymGumbel.log],
                                        rng=[[[k, (x if not isinstance(x, (list, tuple)) else list(x))] for k, x in stubs.script_from_model(m, r)] for r in stubs.SymRng.instances])
                        thunk = finder_calls(inputs, output, size)[ci][1]
                        try:
                            kind, res = thunk()
                        except (symx.PathAbort, symx.Unsupported, symx.Budget):
                            raise
                        except Exception as e:  # noqa
                            rec.refute(ctx, True, "pathfinder returns", lambda m: dict(case=case, problem=f"raised {e!r}", signature=["C05", case["finder"], list(inputs), output, "raise", type(e).__name__]))
                            return
                        finally:
                            PB.GumbelBatchedGenerator = orig_g
                        if kind == "skip":
                            return
                        prob = None
                        if kind == "path":
                            res = [tuple(int(x) for x in p) for p in res]
                            if not valid_linear(res, n):
                                prob = f"linear path {res} is not valid / complete for {n} tensors"
                            else:
                                from cotengra.core import ContractionTree

                                prob = tree_ok(ContractionTree.from_path(inputs, output, size, path=res, autocomplete=False), inputs) if n > 1 else None
                        else:
                            prob = tree_ok(res, inputs)
                        rec.refute(ctx, prob is not None, "complete well-formed contraction",
                                   lambda m: dict(case=case, problem=prob, scripts=scripts(m), signature=["C05", case["finder"], list(inputs), output, str(prob)[:50]]))

                    rec.add_explore(symx.explore(harness, max_paths=(60 if tier == "quick" else 1500), deadline_s=(6 if tier == "quick" else 120)))
                # real kahypar (concrete)
                if sv == 0:
                    for name, thunk in kahypar_calls(inputs, output, size):
                        case = dict(inputs=list(inputs), output=output, size=size, finder=name)
                        try:
                            kind, res = thunk()
                            prob = tree_ok(res, inputs)
                        except Exception as e:  # noqa
                            prob = f"raised {e!r}"
                        rec.obligations += 1
                        if prob is None:
                            rec.discharged += 1
                            rec.reach = max(rec.reach, 1)
                        else:
                            rec._keep(dict(label="kahypar-based builder returns a complete tree", case=case, problem=prob, signature=["C05", name, list(inputs), output, str(prob)[:50]]))
            rec.sample(dict(inputs=list(inputs), output=output, finders=len(names), noise="symbolic", partitioner="arbitrary membership vector"))
    finally:
        PB.GumbelBatchedGenerator = orig_g
    rec.validated += 1


def replay(v):
    """seeded concrete runs of the same finder"""
    warnings.simplefilter("ignore")
    import random as _r

    from cotengra.core import ContractionTree

    case = v["case"]
    inputs, output, size = tuple(case["inputs"]), case["output"], case["size"]
    n = len(inputs)
    name = case["finder"]
    if name.startswith("kahypar"):
        table = dict(kahypar_calls(inputs, output, size))
    else:
        table = None
    probs = []
    import cotengra.pathfinders.path_basic as PB

    attempts = list(range(12))
    sc = v.get("scripts")
    if sc and table is None and (sc.get("gumbel") or sc.get("rng")):
        attempts = ["script"] + attempts
    for seed in attempts:
        orig_g = PB.GumbelBatchedGenerator
        if seed == "script":
            # the solver's noise realisation, replayed on the real code
            stubs.ScriptedGumbel.script, stubs.ScriptedGumbel.pos = list(sc.get("gumbel") or []), 0
            PB.GumbelBatchedGenerator = stubs.ScriptedGumbel
            _r.seed(99)
            try:
                kind, res = concrete_call(name, inputs, output, size, stubs.ScriptedRng([tuple(x) for x in (sc.get("rng") or [[]])[0]]))
            except Exception:  # noqa -- the script does not fit a concrete run: fall back to ordinary seeds
                continue
            finally:
                PB.GumbelBatchedGenerator = orig_g
            bad = None
            if kind == "path":
                res = [tuple(p) for p in res]
                if not valid_linear(res, n):
                    bad = f"returned path {res}: not a valid complete path over {n} tensors"
            elif kind == "tree":
                bad = tree_ok(res, inputs)
            if bad:
                return True, f"{name} on {','.join(inputs)}->{output}: {bad} (noise realisation chosen by the solver: gumbel draws {[round(g, 3) for g in sc.get('gumbel', [])][:8]}...)"
            continue
        _r.seed(seed)

        class SeededCtx:
            pass

        try:
            if table is not None:
                kind, res = table[name]()
            else:
                kind, res = concrete_call(name, inputs, output, size, seed)
        except Exception as e:  # noqa
            return True, f"{name} on {','.join(inputs)}->{output} raised {e!r} (seed {seed})"
        if kind == "skip":
            return False, "not applicable"
        if kind == "path":
            res = [tuple(p) for p in res]
            if not valid_linear(res, n):
                return True, f"{name} on {','.join(inputs)}->{output} returned path {res}: not a valid complete path over {n} tensors (seed {seed})"
        else:
            p = tree_ok(res, inputs)
            if p:
                return True, f"{name} on {','.join(inputs)}->{output}: {p} (seed {seed})"
    return False, "12 seeded runs are well-formed"


def concrete_call(name, inputs, output, size, seed):
    """the finder by name with ordinary seeds instead of solver-chosen draws"""
    import random as _r

    import cotengra as ctg
    from cotengra.core import ContractionTree, PartitionTreeBuilder
    from cotengra.pathfinders import path_basic as PB
    from cotengra.pathfinders.path_labels import labels_partition
    from cotengra.pathfinders.path_random import RandomOptimizer

    n = len(inputs)
    labels = skel.all_labels(inputs)
    rng = _r.Random(seed)
    if "[" in name and name.split("[")[0] in ("array_contract_path", "array_contract_tree", "find_path", "find_tree") and "edge path" not in name:
        preset = name.split("[")[1].rstrip("]")
        fn = name.split("[")[0]
        if fn == "array_contract_path":
            return "path", ctg.array_contract_path(inputs, output, size, optimize=preset, cache=False)
        if fn == "array_contract_tree":
            return "tree", ctg.array_contract_tree(inputs, output, size, optimize=preset)
        if fn == "find_path":
            return "path", ctg.interface.find_path(inputs, output, size, optimize=preset)
        return "tree", ctg.interface.find_tree(inputs, output, size, optimize=preset)
    if name == "optimize_optimal":
        return "path", PB.optimize_optimal(inputs, output, size, minimize=rng.choice(["flops", "size", "write", "max", "combo", "limit"]), cost_cap=rng.randint(1, 64), search_outer=rng.random() < 0.5)
    if name == "optimize_greedy":
        return "path", PB.optimize_greedy(inputs, output, size, costmod=rng.choice([0.1, 1.0, 4.0]), temperature=rng.choice([0.0, 0.5]))
    if name == "optimize_random_greedy_track_flops":
        return "path", PB.optimize_random_greedy_track_flops(inputs, output, size, ntrials=1, seed=seed)[0]
    if name == "optimize_random_greedy_track_flops[2 trials]":
        return "path", PB.optimize_random_greedy_track_flops(inputs, output, size, ntrials=2, seed=seed)[0]
    if name == "RandomGreedyOptimizer[2 repeats] (path)":
        return "path", PB.RandomGreedyOptimizer(max_repeats=2, seed=seed, accel=False, parallel=False)(inputs, output, size)
    if name == "RandomGreedyOptimizer[2 repeats].search":
        return "tree", PB.RandomGreedyOptimizer(max_repeats=2, seed=seed, accel=False, parallel=False).search(inputs, output, size)
    if name == "RandomGreedyOptimizer.search":
        return "tree", PB.RandomGreedyOptimizer(max_repeats=1, seed=seed, accel=False, parallel=False).search(inputs, output, size)
    if name == "RandomOptimizer":
        return "path", RandomOptimizer(seed=seed)(inputs, output, size)
    if name == "RandomOptimizer.search":
        return "tree", RandomOptimizer(seed=seed).search(inputs, output, size)
    if name == "GreedyOptimizer.search":
        return "tree", PB.GreedyOptimizer().search(inputs, output, size)
    if name == "OptimalOptimizer.search":
        return "tree", PB.OptimalOptimizer(search_outer=rng.random() < 0.5).search(inputs, output, size)

    def rand_partition(inputs_, output_, size_, parts=2, **kw):
        return [rng.randrange(max(1, int(parts))) for _ in range(len(inputs_))]

    if name == "build_divide[stub partitioner]":
        return "tree", PartitionTreeBuilder(rand_partition).build_divide(inputs, output, size, cutoff=rng.choice([1, 2]), parts=rng.choice([2, 3]), parts_decay=rng.choice([0.0, 0.5, 1.0]), sub_optimize="greedy", super_optimize="greedy", seed=seed)
    if name == "build_agglom[stub partitioner]":
        return "tree", PartitionTreeBuilder(rand_partition).build_agglom(inputs, output, size, groupsize=rng.choice([1, 2, 3]), sub_optimize="greedy", seed=seed)
    if name == "build_divide[labels_partition]":
        return "tree", PartitionTreeBuilder(labels_partition).build_divide(inputs, output, size, cutoff=1, parts=2, sub_optimize="greedy", super_optimize="greedy", seed=seed)
    if name == "build_agglom[labels_partition]":
        return "tree", PartitionTreeBuilder(labels_partition).build_agglom(inputs, output, size, groupsize=2, sub_optimize="greedy", seed=seed)
    if name.startswith("from_path[partial linear"):
        path = []
        cur = n
        for k in range(rng.randrange(n)):
            i, j = rng.sample(range(cur), 2)
            path.append((i, j))
            cur -= 1
        return "tree", ContractionTree.from_path(inputs, output, size, path=path, autocomplete=True)
    if name.startswith("from_path[partial edge"):
        ep = rng.sample(labels, rng.randrange(len(labels) + 1))
        return "tree", ContractionTree.from_path(inputs, output, size, edge_path=ep, autocomplete=True)
    if name == "array_contract_tree[edge path]":
        if not labels:
            return "skip", None
        return "tree", ctg.array_contract_tree(inputs, output, size, optimize=tuple(labels), canonicalize=False)
    raise ValueError(name)


if __name__ == "__main__":
    sys.exit(main("checks.c05"))
