"""C10 -- path formats convert into each other and into trees without loss.

(a) linear_to_ssa / ssa_to_linear: path entries are solver variables
    constrained only by validity (distinct positions < number of tensors left;
    step arities 1..3 chosen by the solver); z3 drives every concretisation.
    Oracle: the definitional interpretation of both formats as sequences of
    leaf sets.
(b) tree -> get_path / get_ssa_path under a callable order whose value per
    node is a fresh solver variable (every admissible order is a path), 'dfs',
    None, 'surface_order' -> from_path: same set of intermediates; every
    emitted step lists children before parents.
(c) edge paths: a solver-chosen permutation of the labels (and solver-chosen
    truncation) -> edge_path_to_ssa / edge_path_to_linear: each step contracts
    exactly the tensors that carry the index at that moment.
"""

import sys
import warnings

import z3

from vlib import skel, symx
from vlib.runner import main
from vlib.symx import term

PROPERTY = "C10"
STUBS = []
ASSUMPTIONS = ["paths are sequences of python ints; positions are concretised by the solver (every feasible value is a fork)"]
OUTSIDE = ["more than 5 tensors (6 in thorough for (a))", "paths that are not valid for their format (precondition)"]


def bounds(tier):
    if tier == "quick":
        return dict(a="N<=4 tensors, steps of arity 1..3 (solver-chosen), all valid position tuples", b="all trees N<=4, orders None/dfs/surface_order/symbolic callable",
                    c="skeletons N<=3 rank<=2 (every 2nd), every permutation/prefix of the labels")
    return dict(a="N<=4 tensors with step arities 1..3; N=5 with arities 1..2", b="all trees N<=5", c="skeletons N<=3 rank<=2 and N=4 rank<=2 (every 5th), every permutation/prefix of labels")


def items(tier, seed):
    its = []
    nmax = 4 if tier == "quick" else 5
    for n in range(2, nmax + 1):
        # partition the space of paths by (arity, first entry) of the first step
        for ar0 in range(1, min(3 if n <= 4 else 2, n) + 1):
            for p0 in range(n):
                its.append({"kind": "linssa", "n": n, "tier": tier, "ar0": ar0, "p0": p0})
    for n in range(2, nmax + 1):
        trees = skel.all_trees(n)
        for i in range(0, len(trees), 8):
            its.append({"kind": "treepath", "n": n, "trees": [[list(p) for p in t] for t in trees[i : i + 8]], "tier": tier, "k": i})
    sk = skel.skeletons(2, 2, 4, 0) + skel.skeletons(3, 2, 4, 0)
    if tier == "quick":
        sk = sk[::2]
    else:
        sk = sk + skel.skeletons(4, 2, 4, 0, max_positions=7)[::5]
    for i in range(0, len(sk), 6):
        its.append({"kind": "edge", "skeletons": [[list(a), b] for a, b in sk[i : i + 6]], "tier": tier, "k": i})
    # rank-3 tensors with an index repeated inside a tensor, reached through another index first
    its.append({"kind": "edge", "skeletons": [[list(a), b] for a, b in EDGE_FIXED], "tier": tier, "k": "fixed"})
    return its


EDGE_FIXED = [(("aab", "bc", "cad"), ""), (("abb", "bc", "cda", "de"), ""), (("aab", "ab"), ""), (("aba", "bc", "acc"), ""), (("aab", "bcc", "d"), "")]


# definitional interpreters -------------------------------------------------


def interp_linear(path, n):
    cur = [frozenset([i]) for i in range(n)]
    out = []
    for con in path:
        con = list(con)
        if len(set(con)) != len(con) or any(not (0 <= c < len(cur)) for c in con):
            return None
        merged = frozenset().union(*[cur[c] for c in con])
        for c in sorted(con, reverse=True):
            cur.pop(c)
        cur.append(merged)
        out.append(merged)
    return out, cur


def interp_ssa(path, n):
    ids = {i: frozenset([i]) for i in range(n)}
    nxt = n
    out = []
    for con in path:
        con = list(con)
        if len(set(con)) != len(con) or any(c not in ids for c in con):
            return None
        merged = frozenset().union(*[ids.pop(c) for c in con])
        ids[nxt] = merged
        nxt += 1
        out.append(merged)
    return out, list(ids.values())


def run_linssa(item, rec):
    from cotengra.pathfinders.path_basic import linear_to_ssa, ssa_to_linear

    n = item["n"]

    def harness(ctx):
        # a solver-chosen valid linear path
        remaining = n
        path = []
        k = 0
        while remaining > 1:
            ar = symx.choose(f"arity{k}", min(3 if n <= 4 else 2, remaining)) + 1
            if k == 0 and ar != item["ar0"]:
                raise symx.PathAbort()
            step = []
            for j in range(ar):
                v = symx.sym_int(f"p{k}_{j}", 0, remaining - 1)
                if k == 0 and j == 0:
                    ctx.assume(term(v) == item["p0"])
                for w in step:
                    ctx.assume(term(v) != term(w))
                step.append(v)
            path.append(tuple(step))
            remaining -= ar - 1
            k += 1
            if k >= n:
                break
        complete = remaining == 1
        ssa = linear_to_ssa(path, n)
        back = ssa_to_linear(ssa, n)
        # by now every entry has been concretised by the real code (ids.pop)
        cpath = [tuple(ctx.concretize(term(v)) for v in st) for st in path]
        cssa = [tuple(int(x) for x in st) for st in ssa]
        cback = [tuple(int(x) for x in st) for st in back]
        want = interp_linear(cpath, n)
        got_ssa = interp_ssa(cssa, n)
        got_back = interp_linear(cback, n)
        ok = want is not None and got_ssa is not None and got_back is not None
        ok = ok and got_ssa[0] == want[0] and got_back[0] == want[0]
        ok = ok and [sorted(s) for s in cback] == [sorted(s) for s in cpath]
        # N inferred from the path itself must agree
        if complete:
            ok = ok and [tuple(map(int, s)) for s in linear_to_ssa(cpath)] == cssa
            ok = ok and [sorted(map(int, s)) for s in ssa_to_linear(cssa)] == [sorted(s) for s in cpath]
        # and the other direction: ssa -> linear -> ssa
        again = linear_to_ssa(ssa_to_linear(cssa, n), n)
        ok = ok and [sorted(map(int, s)) for s in again] == [sorted(s) for s in cssa]
        rec.refute(ctx, not ok, "linear<->ssa exact inverse", lambda m: dict(case=dict(kind="linssa", n=n, path=[list(s) for s in cpath]), signature=["C10a", n, str(cpath)]))
        # ... and into trees: the tree built from the linear path and the tree built from its
        # SSA form contain every group the path merges (single-tensor steps only renumber)
        from cotengra.core import ContractionTree

        inputs = tuple(skel.LETTERS[i] + skel.LETTERS[(i + 1) % n] for i in range(n))
        size = {c: 2 for c in skel.all_labels(inputs)}
        t_lin = ContractionTree.from_path(inputs, "", size, path=cpath, autocomplete=True, optimize="greedy")
        t_ssa = ContractionTree.from_path(inputs, "", size, ssa_path=cssa, autocomplete=True, optimize="greedy")
        groups = [g for g in want[0] if len(g) > 1]
        ok2 = all(g in t_lin.info for g in groups) and all(g in t_ssa.info for g in groups) and t_lin.is_complete() and t_ssa.is_complete()
        rec.refute(ctx, not ok2, "from_path(linear) and from_path(ssa) contain the groups the path merges",
                   lambda m: dict(case=dict(kind="linssa-tree", n=n, path=[list(s) for s in cpath]), signature=["C10a-tree", n, str(cpath)]), reach_probe=False)
        return cpath

    out = symx.explore(harness, max_paths=200000, max_enum=16)
    rec.add_explore(out)
    rec.sample(dict(kind="linear<->ssa", n=n, distinct_paths=len({str(r) for r in out.results}), example=[list(s) for s in out.results[len(out.results) // 2]] if out.results else None))
    rec.validated += 1


class SymOrder:
    def __init__(self):
        self.keys = {}

    def __call__(self, node):
        try:
            return self.keys[node]
        except KeyError:
            k = self.keys[node] = symx.sym_int("ord_" + "_".join(map(str, sorted(node))))
            return k


def run_treepath(item, rec):
    from cotengra.core import ContractionTree

    n = item["n"]
    inputs = tuple(skel.LETTERS[i] + skel.LETTERS[(i + 1) % n] for i in range(n))  # a ring
    output = ""
    size = {c: 2 for c in skel.all_labels(inputs)}
    for ssa in item["trees"]:
        ssa = [tuple(p) for p in ssa]
        want_nodes = set(skel.ssa_nodes(ssa, n))
        for order in (None, "dfs", "surface_order", "sym"):
            case = dict(kind="treepath", n=n, ssa=[list(p) for p in ssa], order=order)

            def harness(ctx, order=order, case=case):
                tree = ContractionTree.from_path(inputs, output, size, ssa_path=ssa)
                so = SymOrder() if order == "sym" else order

                def viol(m):
                    d = dict(case=case, signature=["C10b", n, str(ssa), str(order)])
                    if isinstance(so, SymOrder):
                        d["order_keys"] = [[sorted(nd), symx.eval_model(m, k)] for nd, k in so.keys.items()]
                    return d

                with rec.guarded(ctx, "tree->path->tree", viol):
                    path = tree.get_path(so)
                    spath = tree.get_ssa_path(so)
                a = interp_linear(path, n)
                b = interp_ssa(spath, n)
                ok = a is not None and b is not None
                ok = ok and set(a[0]) == want_nodes and set(b[0]) == want_nodes and len(a[0]) == n - 1 and len(b[0]) == n - 1
                ok = ok and a[0] == b[0]  # same traversal
                if ok:
                    t2 = ContractionTree.from_path(inputs, output, size, path=path)
                    t3 = ContractionTree.from_path(inputs, output, size, ssa_path=spath)
                    ok = set(t2.children) == set(tree.children) == set(t3.children) and t2.is_complete() and t3.is_complete()

                rec.refute(ctx, not ok, "tree->path->tree", viol)

            rec.add_explore(symx.explore(harness, max_paths=500))
    rec.sample(dict(kind="tree->path->tree", n=n, trees=len(item["trees"]), orders=["None", "dfs", "surface_order", "callable with solver-chosen keys"]))
    rec.validated += 1


def run_edge(item, rec):
    from cotengra.core import ContractionTree
    from cotengra.pathfinders.path_basic import edge_path_to_linear, edge_path_to_ssa

    for inputs, output in item["skeletons"]:
        inputs = tuple(inputs)
        n = len(inputs)
        labels = skel.all_labels(inputs)
        if not labels:
            continue
        size = {c: 2 for c in labels}
        case0 = dict(kind="edge", inputs=list(inputs))

        def harness(ctx):
            # solver-chosen permutation prefix of the labels
            rest = list(labels)
            ep = []
            ln = symx.choose("len", len(labels) + 1)
            for k in range(ln):
                j = symx.choose(f"e{k}", len(rest))
                ep.append(rest.pop(j))
            try:
                ssa = edge_path_to_ssa(ep, inputs)
                lin = edge_path_to_linear(ep, inputs)
            except (symx.PathAbort, symx.Unsupported, symx.Budget):
                raise
            except Exception as e:  # noqa
                rec.refute(ctx, True, "edge path -> ssa/linear (conversion raised)", lambda m: dict(case=dict(case0, edge_path=ep), raised=repr(e), signature=["C10c", list(inputs), "raise", type(e).__name__]))
                return
            # independent recomputation
            cur = {i: set(t) for i, t in enumerate(inputs)}
            leafsets = {i: frozenset([i]) for i in range(n)}
            nxt = n
            want = []
            for ix in ep:
                have = sorted(i for i, t in cur.items() if ix in t)
                if len(have) < 2:
                    continue
                want.append(tuple(have))
                new = set().union(*[cur.pop(i) for i in have])
                cur[nxt] = new
                leafsets[nxt] = frozenset().union(*[leafsets.pop(i) for i in have])
                nxt += 1
            ok = [tuple(s) for s in ssa] == want
            a = interp_ssa(ssa, n)
            b = interp_linear(lin, n)
            ok = ok and a is not None and b is not None and a[0] == b[0]
            if ok:
                tree = ContractionTree.from_path(inputs, "", size, edge_path=ep, autocomplete=True)
                ok = tree.is_complete()
                # every group contracted by the edge path is a node of the tree
                ok = ok and all(g in tree.info for g in a[0])
            rec.refute(ctx, not ok, "edge path -> ssa/linear", lambda m: dict(case=dict(case0, edge_path=ep), signature=["C10c", list(inputs), "".join(ep)]))

        rec.add_explore(symx.explore(harness, max_paths=5000, max_enum=16))
    rec.sample(dict(kind="edge path", inputs=list(inputs), edge_path="solver-chosen permutation prefix of the labels"))
    rec.validated += 1


def run_item(item, rec):
    warnings.simplefilter("ignore")
    {"linssa": run_linssa, "treepath": run_treepath, "edge": run_edge}[item["kind"]](item, rec)


def replay(v):
    warnings.simplefilter("ignore")
    from cotengra.core import ContractionTree
    from cotengra.pathfinders.path_basic import edge_path_to_linear, edge_path_to_ssa, linear_to_ssa, ssa_to_linear

    case = v["case"]
    if case["kind"] == "linssa":
        n = case["n"]
        path = [tuple(s) for s in case["path"]]
        want = interp_linear(path, n)
        try:
            ssa = linear_to_ssa(path, n)
            back = ssa_to_linear(ssa, n)
        except Exception as e:  # noqa
            return True, f"raised {e!r}"
        a, b = interp_ssa(ssa, n), interp_linear(back, n)
        if a is None or b is None or a[0] != want[0] or b[0] != want[0] or [sorted(s) for s in back] != [sorted(s) for s in path]:
            return True, f"linear {path} -> ssa {ssa} -> linear {back}"
        if len(want[1]) == 1 and [tuple(s) for s in linear_to_ssa(path)] != [tuple(s) for s in ssa]:
            return True, "inferred N gives a different ssa path"
        return False, "round trip is exact"
    if case["kind"] == "linssa-tree":
        n = case["n"]
        path = [tuple(s) for s in case["path"]]
        inputs = tuple(skel.LETTERS[i] + skel.LETTERS[(i + 1) % n] for i in range(n))
        size = {c: 2 for c in skel.all_labels(inputs)}
        want = interp_linear(path, n)
        groups = [g for g in want[0] if len(g) > 1]
        t_lin = ContractionTree.from_path(inputs, "", size, path=path, autocomplete=True, optimize="greedy")
        t_ssa = ContractionTree.from_path(inputs, "", size, ssa_path=linear_to_ssa(path, n), autocomplete=True, optimize="greedy")
        miss = [sorted(g) for g in groups if g not in t_lin.info]
        if miss:
            return True, f"from_path(path={path}) over {n} tensors does not contain the groups {miss} that the path merges"
        miss = [sorted(g) for g in groups if g not in t_ssa.info]
        if miss:
            return True, f"from_path(ssa_path=...) of the same path does not contain {miss}"
        return False, "trees contain every merged group"
    if case["kind"] == "treepath":
        n = case["n"]
        inputs = tuple(skel.LETTERS[i] + skel.LETTERS[(i + 1) % n] for i in range(n))
        size = {c: 2 for c in skel.all_labels(inputs)}
        ssa = [tuple(p) for p in case["ssa"]]
        order = case["order"]
        if order == "sym":
            keys = {frozenset(nd): k for nd, k in v.get("order_keys", [])}
            order = lambda node: keys.get(node, 0)  # noqa
        tree = ContractionTree.from_path(inputs, "", size, ssa_path=ssa)
        try:
            path, spath = tree.get_path(order), tree.get_ssa_path(order)
        except Exception as e:  # noqa
            return True, f"get_path / get_ssa_path with order keys {v.get('order_keys', case['order'])} raised {e!r}"
        a, b = interp_linear(path, n), interp_ssa(spath, n)
        if a is None or b is None:
            return True, f"emitted path refers to ids that do not exist yet: {path} / {spath}"
        want = set(skel.ssa_nodes(ssa, n))
        if set(a[0]) != want or set(b[0]) != want:
            return True, "path does not reproduce the tree's intermediates"
        return False, "ok"
    inputs = tuple(case["inputs"])
    ep = case["edge_path"]
    try:
        ssa = edge_path_to_ssa(ep, inputs)
        edge_path_to_linear(ep, inputs)
    except Exception as e:  # noqa
        return True, f"edge path {ep} on {inputs}: conversion raised {e!r}"
    cur = {i: set(t) for i, t in enumerate(inputs)}
    nxt = len(inputs)
    want = []
    for ix in ep:
        have = sorted(i for i, t in cur.items() if ix in t)
        if len(have) < 2:
            continue
        want.append(tuple(have))
        cur[nxt] = set().union(*[cur.pop(i) for i in have])
        nxt += 1
    if [tuple(s) for s in ssa] != want:
        return True, f"edge path {ep}: got {ssa}, tensors carrying each index: {want}"
    lin = edge_path_to_linear(ep, inputs)
    a, b = interp_ssa(ssa, len(inputs)), interp_linear(lin, len(inputs))
    if a is None or b is None or a[0] != b[0]:
        return True, "linear form differs from ssa form"
    return False, "ok"


if __name__ == "__main__":
    sys.exit(main("checks.c10"))
