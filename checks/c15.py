"""C15 -- a crash while writing the on-disk cache never poisons later runs.

The writer (`ReusableOptimizer._maybe_run_optimizer` -> `DiskDict.__setitem__`)
is run for real under a tracer that records the file-system events it performs
(mkdir / open+truncate / write(bytes) / close / replace / unlink).  The crash
point is a solver variable: which event the process dies before (Int c), and
for a write event how many of its bytes reached the file (Int k in [0, len]).
z3 enumerates every feasible (c, k); for each the post-crash directory is
materialised and a FRESH optimizer object (= a later process) runs the real
hash_query / __contains__ / __getitem__ / search on it.
Assertions: search raises nothing and returns a complete tree of the queried
contraction; if it did not search again, the entry it used equals the complete
stored entry; an entry stored before the crash is still returned from the
cache without searching.
"""

import builtins
import io
import os
import pickle
import shutil
import subprocess
import sys
import tempfile
import warnings

from vlib import symx
from vlib.runner import main

VERIF_ROOT = __import__("os").path.dirname(__import__("os").path.dirname(__import__("os").path.abspath(__file__)))
PROPERTY = "C15"
STUBS = [
    "file-system tracer around the real writer: cotengra.utils.open, os.mkdir/replace/rename/unlink/fsync are wrapped to record events (they still act on a real temporary directory)",
    "crash = the post-crash directory is rebuilt from the event prefix (+ k bytes of the interrupted write); the reader runs the real code on a real directory",
]
ASSUMPTIONS = [
    "a crash stops the process between two file-system calls or in the middle of a write; bytes reach the file in order (prefix model)",
    "os.replace / rename are atomic (POSIX)",
    "no concurrent writers",
]
OUTSIDE = ["torn writes below byte granularity, reordering of directory entries by the file system", "concurrent writers"]

QUERY = (("ab", "bc", "cd", "da"), "", {"a": 2, "b": 3, "c": 2, "d": 3})
OTHER = (("ab", "bc", "ca"), "", {"a": 2, "b": 2, "c": 2})


def bounds(tier):
    return dict(optimizers=["ReusableRandomGreedyOptimizer", "ReusableHyperOptimizer(methods=['greedy'], optlib='random')"], cases=["new entry", "overwrite=True of an existing entry", "overwrite='improved' of an existing entry"],
                directory_split=[True, False], crash_points="before every recorded event; every byte offset of every write", hash_method=["a"] if tier == "quick" else ["a", "b"])


def items(tier, seed):
    its = []
    for optname in ("rgreedy", "hyper"):
        for case in ("new", "overwrite", "improved"):
            for split in (True, False):
                for hm in (("a",) if tier == "quick" else ("a", "b")):
                    its.append({"opt": optname, "case": case, "split": split, "hash": hm, "tier": tier})
    return its


def make_opt(optname, directory, **kw):
    if optname == "rgreedy":
        from cotengra.pathfinders.path_basic import ReusableRandomGreedyOptimizer

        return ReusableRandomGreedyOptimizer(directory=directory, max_repeats=2, seed=0, accel=False, parallel=False, **kw)
    from cotengra.hyperoptimizers.hyper import ReusableHyperOptimizer

    return ReusableHyperOptimizer(directory=directory, max_repeats=2, methods=["greedy"], optlib="random", parallel=False, progbar=False, **kw)


# ---------------------------------------------------------------------------
# tracer


class Tracer:
    def __init__(self, root):
        self.root = os.path.realpath(root)
        self.events = []

    def rel(self, p):
        p = os.path.realpath(os.fspath(p))
        if p.startswith(self.root):
            return os.path.relpath(p, self.root)
        return None

    def __enter__(self):
        import cotengra.utils as U

        self.U = U
        self.saved = dict(mkdir=os.mkdir, replace=os.replace, rename=os.rename, unlink=os.unlink, fsync=os.fsync, open=U.__dict__.get("open"))
        tr = self

        def mkdir(path, *a, **k):
            r = tr.rel(path)
            res = tr.saved["mkdir"](path, *a, **k)
            if r is not None:
                tr.events.append(("mkdir", r))
            return res

        def replace(src, dst, *a, **k):
            rs, rd = tr.rel(src), tr.rel(dst)
            res = tr.saved["replace"](src, dst, *a, **k)
            if rd is not None:
                tr.events.append(("replace", rs, rd))
            return res

        def rename(src, dst, *a, **k):
            rs, rd = tr.rel(src), tr.rel(dst)
            res = tr.saved["rename"](src, dst, *a, **k)
            if rd is not None:
                tr.events.append(("replace", rs, rd))
            return res

        def unlink(path, *a, **k):
            r = tr.rel(path)
            res = tr.saved["unlink"](path, *a, **k)
            if r is not None:
                tr.events.append(("unlink", r))
            return res

        def fsync(fd):
            tr.events.append(("fsync",))
            return tr.saved["fsync"](fd)

        def topen(file, mode="r", *a, **k):
            r = tr.rel(file) if isinstance(file, (str, os.PathLike)) else None
            f = builtins.open(file, mode, *a, **k)
            if r is None or not any(c in mode for c in "wax+"):
                return f
            tr.events.append(("open", r, mode))
            return TracedFile(f, r, tr)

        os.mkdir, os.replace, os.rename, os.unlink, os.fsync = mkdir, replace, rename, unlink, fsync
        U.open = topen
        return self

    def __exit__(self, *exc):
        os.mkdir, os.replace, os.rename, os.unlink, os.fsync = (self.saved[k] for k in ("mkdir", "replace", "rename", "unlink", "fsync"))
        if self.saved["open"] is None:
            self.U.__dict__.pop("open", None)
        else:
            self.U.open = self.saved["open"]


class TracedFile:
    """Models CPython's buffered binary writer: bytes handed to write() sit in a
    user-space buffer and reach the file only when the buffer exceeds 8 KiB, on
    flush() or on close() -- a process killed in between loses them.  The FS
    event ('write') is emitted when the bytes actually reach the file."""

    BUFSIZE = 8192

    def __init__(self, f, rel, tr):
        self.f, self.rel, self.tr = f, rel, tr
        self.buf = b""

    def _emit(self):
        if self.buf:
            self.tr.events.append(("write", self.rel, self.buf))
            self.f.write(self.buf)
            self.f.flush()
            self.buf = b""

    def write(self, b):
        self.buf += bytes(b)
        if len(self.buf) > self.BUFSIZE:
            self._emit()
        return len(b)

    def flush(self):
        self._emit()

    def close(self):
        self._emit()
        self.tr.events.append(("close", self.rel))
        return self.f.close()

    def __enter__(self):
        return self

    def __exit__(self, *exc):
        self.close()

    def __getattr__(self, name):
        return getattr(self.f, name)


def snapshot(root):
    state = {}
    for dp, dn, fn in os.walk(root):
        for d in dn:
            state[os.path.relpath(os.path.join(dp, d), root)] = None
        for f in fn:
            p = os.path.join(dp, f)
            state[os.path.relpath(p, root)] = open(p, "rb").read()
    return state


def apply_events(state, events, c, k):
    """virtual file system after events[:c] and k bytes of events[c] if it is a write"""
    st = dict(state)
    pos = {}
    for i, ev in enumerate(events[: c + 1]):
        partial = i == c
        if partial and ev[0] != "write":
            break
        if ev[0] == "mkdir":
            st[ev[1]] = None
        elif ev[0] == "open":
            mode = ev[2]
            if "w" in mode:
                st[ev[1]] = b""
            else:
                st.setdefault(ev[1], b"")
        elif ev[0] == "write":
            data = ev[2][:k] if partial else ev[2]
            st[ev[1]] = (st.get(ev[1]) or b"") + data
        elif ev[0] == "replace":
            if ev[1] is not None and ev[1] in st:
                st[ev[2]] = st.pop(ev[1])
        elif ev[0] == "unlink":
            st.pop(ev[1], None)
    return st


def materialise(st, root):
    os.makedirs(root, exist_ok=True)
    for p, v in sorted(st.items(), key=lambda kv: (kv[1] is not None, kv[0])):
        full = os.path.join(root, p)
        if v is None:
            os.makedirs(full, exist_ok=True)
        else:
            os.makedirs(os.path.dirname(full), exist_ok=True)
            with open(full, "wb") as f:
                f.write(v)


def prepare(item, workdir):
    """run the pre-history and the traced writer; returns (pre_state, events, stored_entry_bytes, key info)"""
    warnings.simplefilter("ignore")
    d = os.path.join(workdir, "cache")
    kw = dict(directory_split=item["split"], hash_method=item["hash"])
    opt = make_opt(item["opt"], d, **kw)
    opt.search(*OTHER)  # an entry stored before the crash
    if item["case"] in ("overwrite", "improved"):
        opt.search(*QUERY)
    pre = snapshot(d)
    wkw = dict(kw)
    if item["case"] == "overwrite":
        wkw["overwrite"] = True
    elif item["case"] == "improved":
        wkw["overwrite"] = "improved"
    writer = make_opt(item["opt"], d, **wkw)
    if item["case"] == "improved":
        # make sure the new result counts as an improvement so that the store happens
        h, _ = writer.hash_query(*QUERY)
        old = dict(writer._cache[h])
        old["score"] = old["score"] + 10.0
        writer._cache._mem_cache[h] = old
    with Tracer(d) as tr:
        writer.search(*QUERY)
    post = snapshot(d)
    return d, pre, tr.events, post


def reader_check(item, root):
    """a later process: fresh optimizer object on the directory. returns (ok, detail)"""
    import cotengra.utils as U

    kw = dict(directory_split=item["split"], hash_method=item["hash"])
    try:
        opt = make_opt(item["opt"], root, **kw)
        tree = opt.search(*QUERY)
    except Exception as e:  # noqa
        return False, f"search raised {type(e).__name__}: {e}"
    if not (tree.is_complete() and tuple(tree.inputs) == tuple(QUERY[0]) and tree.N == len(QUERY[0])):
        return False, "search returned a tree that is not a complete tree of the query"
    searched = opt.last_opt is not None
    h, missing = opt.hash_query(*QUERY)
    if missing:
        return False, "entry still missing after a successful search"
    con = opt._cache[h]
    if not (isinstance(con, dict) and {"path", "score", "sliced_inds"} <= set(con)):
        return False, f"cache entry is not a complete record: {con!r}"[:200]
    if tuple(map(tuple, tree.get_path())) != tuple(map(tuple, con["path"])):
        return False, "returned tree does not follow the stored path"
    # the entry stored before the crash
    try:
        opt2 = make_opt(item["opt"], root, **kw)
        t2 = opt2.search(*OTHER)
    except Exception as e:  # noqa
        return False, f"earlier entry: search raised {type(e).__name__}: {e}"
    if opt2.last_opt is not None:
        return False, "earlier entry was searched again (lost)"
    if not t2.is_complete():
        return False, "earlier entry gives an incomplete tree"
    return True, "searched" if searched else "cache"


def run_item(item, rec):
    warnings.simplefilter("ignore")
    work = tempfile.mkdtemp(prefix="verif_c15_")
    try:
        d, pre, events, post = prepare(item, work)
        nev = len(events)
        rec.notes["writer_events"] = " ".join(e[0] for e in events)
        wlens = {i: len(e[2]) for i, e in enumerate(events) if e[0] == "write"}
        counter = [0]
        outcomes = {}

        def harness(ctx):
            c = symx.sym_int("crash_before_event", 0, nev)
            ci = ctx.concretize(c.e)
            k = 0
            if ci in wlens:
                kk = symx.sym_int("bytes_written", 0, wlens[ci])
                k = ctx.concretize(kk.e)
            st = apply_events(pre, events, ci, k) if ci < nev else dict(post)
            counter[0] += 1
            root = os.path.join(work, f"r{counter[0]}")
            materialise(st, root)
            ok, detail = reader_check(item, root)
            shutil.rmtree(root, ignore_errors=True)
            outcomes[detail if ok else "FAIL"] = outcomes.get(detail if ok else "FAIL", 0) + 1
            ev = events[ci] if ci < nev else ("after-all",)
            fk = None
            rec.refute(ctx, not ok, "later process finds the complete entry or behaves as if absent",
                       lambda m: dict(item=item, crash_event_index=ci, crash_event=[str(x)[:60] for x in ev[:2]], bytes_written=k, detail=detail, finding_key=fk,
                                      signature=["C15", item["opt"], item["case"], item["split"], ev[0], detail[:60]]))
            return ci, k

        out = symx.explore(harness, max_paths=5000, max_enum=4096, deadline_s=(100 if item["tier"] == "quick" else 600))
        rec.add_explore(out)
        rec.sample(dict(item={k: v for k, v in item.items() if k != "tier"}, events=[e[0] if e[0] != "write" else f"write[{len(e[2])}B]" for e in events], crash_points=out.paths, outcomes=outcomes))
        # engine validation: the no-crash state must be readable from the cache
        root = os.path.join(work, "final")
        materialise(post, root)
        ok, detail = reader_check(item, root)
        rec.validated += int(ok and detail == "cache")
        if not (ok and detail == "cache"):
            rec.validation_failures.append(dict(item=item, detail=detail))
    finally:
        shutil.rmtree(work, ignore_errors=True)


_WRITER = r"""
import sys, os, warnings
warnings.simplefilter("ignore")
sys.path.insert(0, __import__("os").environ["VERIF_ROOT"])
import json
from checks import c15
item = json.loads(sys.argv[1]); d = sys.argv[2]; target_event = int(sys.argv[3]); k = int(sys.argv[4])
import cotengra.utils as U
kw = dict(directory_split=item["split"], hash_method=item["hash"])
if item["case"] == "overwrite": kw["overwrite"] = True
if item["case"] == "improved": kw["overwrite"] = "improved"
writer = c15.make_opt(item["opt"], d, **kw)
if item["case"] == "improved":
    h, _ = writer.hash_query(*c15.QUERY)
    old = dict(writer._cache[h]); old["score"] += 10.0
    writer._cache._mem_cache[h] = old
count = [0]
class Killer(c15.Tracer):
    pass
tr = c15.Tracer(d)
orig_append = tr.events.append
class L(list):
    def append(self, ev):
        idx = len(self)
        if idx == target_event and ev[0] != "write":
            os._exit(17)
        list.append(self, ev)
tr.events = L()
# partial flush: k bytes of the buffer reach the file, then the process dies
orig_emit = c15.TracedFile._emit
def _emit(self):
    idx = len(self.tr.events)
    if self.buf and idx == target_event:
        self.f.write(self.buf[:k]); self.f.flush(); os._exit(17)
    return orig_emit(self)
c15.TracedFile._emit = _emit
with tr:
    writer.search(*c15.QUERY)
os._exit(0 if target_event >= len(tr.events) else 3)
"""

_READER = r"""
import sys, warnings, json
warnings.simplefilter("ignore")
sys.path.insert(0, __import__("os").environ["VERIF_ROOT"])
from checks import c15
item = json.loads(sys.argv[1])
ok, detail = c15.reader_check(item, sys.argv[2])
print(json.dumps([ok, detail]))
"""


def replay(v):
    """real writer process killed with os._exit at the crash point, then a real reader process"""
    import json

    item = v["item"]
    work = tempfile.mkdtemp(prefix="verif_c15_replay_")
    try:
        d = os.path.join(work, "cache")
        kw = dict(directory_split=item["split"], hash_method=item["hash"])
        opt = make_opt(item["opt"], d, **kw)
        opt.search(*OTHER)
        if item["case"] in ("overwrite", "improved"):
            opt.search(*QUERY)
        env = dict(os.environ, PYTHONPATH=VERIF_ROOT, VERIF_ROOT=VERIF_ROOT)
        p = subprocess.run([sys.executable, "-W", "ignore", "-c", _WRITER, json.dumps(item), d, str(v["crash_event_index"]), str(v["bytes_written"])], capture_output=True, text=True, env=env, timeout=300)
        if p.returncode not in (17, 0):
            return False, f"writer process did not reach the crash point (exit {p.returncode}): {p.stderr[-300:]}"
        r = subprocess.run([sys.executable, "-W", "ignore", "-c", _READER, json.dumps(item), d], capture_output=True, text=True, env=env, timeout=300)
        if r.returncode != 0:
            return True, f"reader process crashed: {r.stderr[-300:]}"
        ok, detail = json.loads(r.stdout.strip().splitlines()[-1])
        if not ok:
            return True, f"writer killed before event {v['crash_event_index']} ({v['crash_event']}) after {v['bytes_written']} bytes; later process: {detail}"
        return False, f"later process behaves correctly ({detail})"
    finally:
        shutil.rmtree(work, ignore_errors=True)


if __name__ == "__main__":
    sys.exit(main("checks.c15"))
