"""C15 -- a crash while writing the on-disk cache never poisons later runs.

The writer (`ReusableOptimizer._maybe_run_optimizer` -> `DiskDict.__setitem__`)
is run for real under a tracer that records the file-system events it performs
(mkdir / open+truncate / write(bytes) / close / replace / unlink).  The crash
point is a solver variable: which event the process dies before (Int c), and
for a write event how many of its bytes reached the file (Int k in [0, len]).
z3 enumerates every feasible (c, k); for each the post-crash directory is
materialised and a FRESH optimizer object (= a later process) runs the real
hash_query / __contains__ / __getitem__ / search on it.
Assertions: search raises nothing and returns a complete tree of the queried
contraction; if it did not search again, the entry it used equals the complete
stored entry; an entry stored before the crash is still returned from the
cache without searching.
"""

import builtins
import contextlib
import io
import os
import pickle
import shutil
import subprocess
import sys
import tempfile
import warnings

from vlib import symx
from vlib.runner import main

VERIF_ROOT = __import__("os").path.dirname(__import__("os").path.dirname(__import__("os").path.abspath(__file__)))
PROPERTY = "C15"
STUBS = [
    "file-system tracer around the real writer: cotengra.utils.open, os.mkdir/replace/rename/unlink/fsync are wrapped to record events (they still act on a real temporary directory)",
    "crash = the post-crash directory is rebuilt from the event prefix (+ k bytes of the interrupted write); the reader runs the real code on a real directory",
]
ASSUMPTIONS = [
    "a crash stops the process between two file-system calls or in the middle of a write; bytes reach the file in order (prefix model)",
    "os.replace / rename are atomic (POSIX)",
    "no concurrent writers",
]
OUTSIDE = ["torn writes below byte granularity, reordering of directory entries by the file system", "concurrent writers"]

QUERY = (("ab", "bc", "cd", "da"), "", {"a": 2, "b": 3, "c": 2, "d": 3})
OTHER = (("ab", "bc", "ca"), "", {"a": 2, "b": 2, "c": 2})


def bounds(tier):
    return dict(optimizers=["ReusableRandomGreedyOptimizer", "ReusableHyperOptimizer(methods=['greedy'], optlib='random')"],
                cases=["new entry", "overwrite=True of an existing entry", "overwrite='improved' of an existing entry", "fresh: the cache directory does not exist yet (creation of the directory and of the optimizer object are inside the traced segment)"],
                directory_split=[True, False], crash_points="before every recorded event; every byte offset of every write", hash_method=["a"] if tier == "quick" else ["a", "b"],
                double_crash=("not explored" if tier == "quick" else "crash -> a second writer process (same or different pid, solver-chosen) that crashes as well at any event / byte offset -> later process; "
                              "the FIRST crash is one representative per structural class of post-crash directories (file set x {empty, partial(1 byte), partial(all but 1 byte), complete} per file)"))


def items(tier, seed):
    its = []
    for optname in ("rgreedy", "hyper"):
        for case in ("new", "overwrite", "improved", "fresh"):
            for split in (True, False):
                for hm in (("a",) if tier == "quick" else ("a", "b")):
                    its.append({"opt": optname, "case": case, "split": split, "hash": hm, "tier": tier})
                if tier == "thorough":
                    its.append({"opt": optname, "case": case, "split": split, "hash": "a", "tier": tier, "double": True})
    return its


def make_opt(optname, directory, **kw):
    if optname == "rgreedy":
        from cotengra.pathfinders.path_basic import ReusableRandomGreedyOptimizer

        return ReusableRandomGreedyOptimizer(directory=directory, max_repeats=2, seed=0, accel=False, parallel=False, **kw)
    from cotengra.hyperoptimizers.hyper import ReusableHyperOptimizer

    return ReusableHyperOptimizer(directory=directory, max_repeats=2, methods=["greedy"], optlib="random", parallel=False, progbar=False, **kw)


# ---------------------------------------------------------------------------
# tracer


class Tracer:
    def __init__(self, root):
        self.root = os.path.realpath(root)
        self.events = []

    def rel(self, p):
        p = os.path.realpath(os.fspath(p))
        if p.startswith(self.root):
            return os.path.relpath(p, self.root)
        return None

    def __enter__(self):
        import cotengra.utils as U

        self.U = U
        self.saved = dict(mkdir=os.mkdir, replace=os.replace, rename=os.rename, unlink=os.unlink, fsync=os.fsync, open=U.__dict__.get("open"))
        tr = self

        def mkdir(path, *a, **k):
            r = tr.rel(path)
            res = tr.saved["mkdir"](path, *a, **k)
            if r is not None:
                tr.events.append(("mkdir", r))
            return res

        def replace(src, dst, *a, **k):
            rs, rd = tr.rel(src), tr.rel(dst)
            res = tr.saved["replace"](src, dst, *a, **k)
            if rd is not None:
                tr.events.append(("replace", rs, rd))
            return res

        def rename(src, dst, *a, **k):
            rs, rd = tr.rel(src), tr.rel(dst)
            res = tr.saved["rename"](src, dst, *a, **k)
            if rd is not None:
                tr.events.append(("replace", rs, rd))
            return res

        def unlink(path, *a, **k):
            r = tr.rel(path)
            res = tr.saved["unlink"](path, *a, **k)
            if r is not None:
                tr.events.append(("unlink", r))
            return res

        def fsync(fd):
            tr.events.append(("fsync",))
            return tr.saved["fsync"](fd)

        def topen(file, mode="r", *a, **k):
            r = tr.rel(file) if isinstance(file, (str, os.PathLike)) else None
            f = builtins.open(file, mode, *a, **k)
            if r is None or not any(c in mode for c in "wax+"):
                return f
            tr.events.append(("open", r, mode))
            return TracedFile(f, r, tr)

        os.mkdir, os.replace, os.rename, os.unlink, os.fsync = mkdir, replace, rename, unlink, fsync
        U.open = topen
        return self

    def __exit__(self, *exc):
        os.mkdir, os.replace, os.rename, os.unlink, os.fsync = (self.saved[k] for k in ("mkdir", "replace", "rename", "unlink", "fsync"))
        if self.saved["open"] is None:
            self.U.__dict__.pop("open", None)
        else:
            self.U.open = self.saved["open"]


class TracedFile:
    """Models CPython's buffered binary writer: bytes handed to write() sit in a
    user-space buffer and reach the file only when the buffer exceeds 8 KiB, on
    flush() or on close() -- a process killed in between loses them.  The FS
    event ('write') is emitted when the bytes actually reach the file."""

    BUFSIZE = 8192

    def __init__(self, f, rel, tr):
        self.f, self.rel, self.tr = f, rel, tr
        self.buf = b""

    def _emit(self):
        if self.buf:
            self.tr.events.append(("write", self.rel, self.buf))
            self.f.write(self.buf)
            self.f.flush()
            self.buf = b""

    def write(self, b):
        self.buf += bytes(b)
        if len(self.buf) > self.BUFSIZE:
            self._emit()
        return len(b)

    def flush(self):
        self._emit()

    def close(self):
        self._emit()
        self.tr.events.append(("close", self.rel))
        return self.f.close()

    def __enter__(self):
        return self

    def __exit__(self, *exc):
        self.close()

    def __getattr__(self, name):
        return getattr(self.f, name)


def snapshot(root):
    state = {}
    for dp, dn, fn in os.walk(root):
        for d in dn:
            state[os.path.relpath(os.path.join(dp, d), root)] = None
        for f in fn:
            p = os.path.join(dp, f)
            state[os.path.relpath(p, root)] = open(p, "rb").read()
    return state


def apply_events(state, events, c, k):
    """virtual file system after events[:c] and k bytes of events[c] if it is a write"""
    st = dict(state)
    pos = {}
    for i, ev in enumerate(events[: c + 1]):
        partial = i == c
        if partial and ev[0] != "write":
            break
        if ev[0] == "mkdir":
            st[ev[1]] = None
        elif ev[0] == "open":
            mode = ev[2]
            if "w" in mode:
                st[ev[1]] = b""
            else:
                st.setdefault(ev[1], b"")
        elif ev[0] == "write":
            data = ev[2][:k] if partial else ev[2]
            st[ev[1]] = (st.get(ev[1]) or b"") + data
        elif ev[0] == "replace":
            if ev[1] is not None and ev[1] in st:
                st[ev[2]] = st.pop(ev[1])
        elif ev[0] == "unlink":
            st.pop(ev[1], None)
    return st


def materialise(st, root):
    if st:
        os.makedirs(root, exist_ok=True)
    for p, v in sorted(st.items(), key=lambda kv: (kv[1] is not None, kv[0])):
        full = os.path.join(root, p)
        if v is None:
            os.makedirs(full, exist_ok=True)
        else:
            os.makedirs(os.path.dirname(full), exist_ok=True)
            with open(full, "wb") as f:
                f.write(v)


def prehistory(item, d):
    """what earlier, uncrashed processes left in the directory"""
    warnings.simplefilter("ignore")
    if item["case"] == "fresh":
        return
    kw = dict(directory_split=item["split"], hash_method=item["hash"])
    opt = make_opt(item["opt"], d, **kw)
    opt.search(*OTHER)  # an entry stored before the crash
    if item["case"] in ("overwrite", "improved"):
        opt.search(*QUERY)


def traced_writer(item, d, tr):
    """the process that will crash: everything it does to the directory is traced"""
    kw = dict(directory_split=item["split"], hash_method=item["hash"])
    if item["case"] == "overwrite":
        kw["overwrite"] = True
    elif item["case"] == "improved":
        kw["overwrite"] = "improved"
    if item["case"] == "fresh":
        with tr:
            writer = make_opt(item["opt"], d, **kw)
            writer.search(*QUERY)
        return
    writer = make_opt(item["opt"], d, **kw)
    if item["case"] == "improved":
        # make sure the new result counts as an improvement so that the store happens
        h, missing = writer.hash_query(*QUERY)
        if not missing:
            old = dict(writer._cache[h])
            old["score"] = old["score"] + 10.0
            writer._cache._mem_cache[h] = old
    with tr:
        writer.search(*QUERY)


def prepare(item, workdir):
    """run the pre-history and the traced writer; returns (dir, pre_state, events, post_state)"""
    d = os.path.join(workdir, "cache")
    prehistory(item, d)
    pre = snapshot(d) if os.path.isdir(d) else {}
    tr = Tracer(d)
    traced_writer(item, d, tr)
    post = snapshot(d)
    return d, pre, tr.events, post


@contextlib.contextmanager
def as_pid(shift):
    """run as 'another process': os.getpid() answers differently (temporary file names depend on it)"""
    if not shift:
        yield
        return
    real = os.getpid

    def getpid():
        return real() + shift

    os.getpid = getpid
    try:
        yield
    finally:
        os.getpid = real


@contextlib.contextmanager
def listing_order(first):
    """the order in which a directory lists its entries is unspecified: `first` (an entry name) is listed first"""
    if first is None:
        yield
        return
    import pathlib

    orig = pathlib.Path.glob

    def glob(self, pattern, **kw):
        res = list(orig(self, pattern, **kw))
        res.sort(key=lambda p_: p_.name != first)
        return iter(res)

    pathlib.Path.glob = glob
    try:
        yield
    finally:
        pathlib.Path.glob = orig


def reader_check(item, root, pid_shift=0, auto=False, listing_first=None):
    with as_pid(pid_shift), listing_order(listing_first):
        return _reader_check(item, root, auto)


def _reader_check(item, root, auto=False):
    """a later process: fresh optimizer object on the directory. returns (ok, detail).
    auto: the later process does not say which layout the directory has (directory_split='auto', the default)"""
    import cotengra.utils as U

    kw = dict(directory_split=item["split"], hash_method=item["hash"])
    if auto:
        kw.pop("directory_split")
    try:
        opt = make_opt(item["opt"], root, **kw)
        tree = opt.search(*QUERY)
    except Exception as e:  # noqa
        return False, f"search raised {type(e).__name__}: {e}"
    if not (tree.is_complete() and tuple(tree.inputs) == tuple(QUERY[0]) and tree.N == len(QUERY[0])):
        return False, "search returned a tree that is not a complete tree of the query"
    searched = opt.last_opt is not None
    h, missing = opt.hash_query(*QUERY)
    if missing:
        return False, "entry still missing after a successful search"
    con = opt._cache[h]
    if not (isinstance(con, dict) and {"path", "score", "sliced_inds"} <= set(con)):
        return False, f"cache entry is not a complete record: {con!r}"[:200]
    if tuple(map(tuple, tree.get_path())) != tuple(map(tuple, con["path"])):
        return False, "returned tree does not follow the stored path"
    if item["case"] == "fresh":
        return True, "searched" if searched else "cache"
    # the entry stored before the crash
    try:
        opt2 = make_opt(item["opt"], root, **kw)
        t2 = opt2.search(*OTHER)
    except Exception as e:  # noqa
        return False, f"earlier entry: search raised {type(e).__name__}: {e}"
    if opt2.last_opt is not None:
        return False, "earlier entry was searched again (lost)"
    if not t2.is_complete():
        return False, "earlier entry gives an incomplete tree"
    return True, "searched" if searched else "cache"


def struct_class(st, post):
    """structural class of a post-crash directory: which names exist and, per file, empty / partial / complete"""
    out = []
    for p_, v in sorted(st.items()):
        if v is None:
            out.append((p_, "dir"))
        else:
            full = [w for w in post.values() if w is not None and len(w) >= len(v) and w[: len(v)] == v]
            kind = "empty" if len(v) == 0 else ("complete" if any(len(w) == len(v) for w in full) or not full else ("p1" if len(v) == 1 else "partial"))
            out.append((p_, kind))
    return tuple(out)


def first_crash_representatives(pre, events, post):
    """one (c, k) per structural class of post-crash directories (k = 1 and k = len-1 kept apart for writes)"""
    reps = {}
    for c in range(len(events) + 1):
        ks = [0]
        if c < len(events) and events[c][0] == "write":
            n = len(events[c][2])
            ks = sorted({0, 1, max(n - 1, 0)})
        for k in ks:
            st = apply_events(pre, events, c, k) if c < len(events) else dict(post)
            key = (struct_class(st, post), k if k <= 1 else "n-1")
            reps.setdefault(key, (c, k))
    return sorted(set(reps.values()))


def run_item(item, rec):
    warnings.simplefilter("ignore")
    if item.get("double"):
        return run_double(item, rec)
    work = tempfile.mkdtemp(prefix="verif_c15_")
    try:
        d, pre, events, post = prepare(item, work)
        nev = len(events)
        rec.notes["writer_events"] = " ".join(e[0] for e in events)
        wlens = {i: len(e[2]) for i, e in enumerate(events) if e[0] == "write"}
        counter = [0]
        outcomes = {}

        def harness(ctx):
            c = symx.sym_int("crash_before_event", 0, nev)
            ci = ctx.concretize(c.e)
            k = 0
            if ci in wlens:
                kk = symx.sym_int("bytes_written", 0, wlens[ci])
                k = ctx.concretize(kk.e)
            st = apply_events(pre, events, ci, k) if ci < nev else dict(post)
            counter[0] += 1
            root = os.path.join(work, f"r{counter[0]}")
            materialise(st, root)
            # an empty / missing directory has no layout to detect: 'auto' is only meaningful (and only claimed) once something was stored
            auto = bool(symx.choose("later_process_detects_layout", 2)) if item["case"] != "fresh" else False
            first = None
            if auto:
                # which entry the directory lists first is unspecified (and is what the detection looks at): solver-chosen
                entries = sorted(os.listdir(root)) if os.path.isdir(root) else []
                if len(entries) > 1:
                    first = entries[symx.choose("listed_first", len(entries))]
            ok, detail = reader_check(item, root, auto=auto, listing_first=first)
            shutil.rmtree(root, ignore_errors=True)
            outcomes[detail if ok else "FAIL"] = outcomes.get(detail if ok else "FAIL", 0) + 1
            ev = events[ci] if ci < nev else ("after-all",)
            fk = None
            rec.refute(ctx, not ok, "later process finds the complete entry or behaves as if absent",
                       lambda m: dict(item=item, crashes=[[ci, k, 0]], reader_auto=auto, listed_first=first, crash_event=[str(x)[:60] for x in ev[:2]], detail=detail, finding_key=fk,
                                      signature=["C15", item["opt"], item["case"], item["split"], ev[0], detail[:60]]))
            return ci, k

        out = symx.explore(harness, max_paths=5000, max_enum=4096, deadline_s=(100 if item["tier"] == "quick" else 600))
        rec.add_explore(out)
        rec.sample(dict(item={k: v for k, v in item.items() if k != "tier"}, events=[e[0] if e[0] != "write" else f"write[{len(e[2])}B]" for e in events], crash_points=out.paths, outcomes=outcomes))
        # engine validation: the no-crash state must be readable from the cache
        root = os.path.join(work, "final")
        materialise(post, root)
        ok, detail = reader_check(item, root)
        rec.validated += int(ok and detail == "cache")
        if not (ok and detail == "cache"):
            rec.validation_failures.append(dict(item=item, detail=detail))
    finally:
        shutil.rmtree(work, ignore_errors=True)


def run_double(item, rec):
    """crash -> second writer process that crashes too -> later process"""
    work = tempfile.mkdtemp(prefix="verif_c15_")
    try:
        d, pre, events, post = prepare(item, work)
        reps = first_crash_representatives(pre, events, post)
        rec.notes["first_crash_classes"] = len(reps)
        counter = [0]
        outcomes = {}
        second_traces = {}

        def second_writer(ri, shift):
            """trace the second writer on the directory left by first-crash representative ri (deterministic: cached)"""
            if (ri, shift) not in second_traces:
                c1, k1 = reps[ri]
                st1 = apply_events(pre, events, c1, k1) if c1 < len(events) else dict(post)
                root = os.path.join(work, f"w{ri}_{shift}")
                materialise(st1, root)
                tr = Tracer(root)
                err = None
                try:
                    with as_pid(shift):
                        traced_writer(item, root, tr)
                except Exception as e:  # noqa
                    err = f"{type(e).__name__}: {e}"
                post2 = snapshot(root) if os.path.isdir(root) else {}
                shutil.rmtree(root, ignore_errors=True)
                second_traces[(ri, shift)] = (st1, tr.events, post2, err)
            return second_traces[(ri, shift)]

        def harness(ctx):
            ri = symx.choose("first_crash_class", len(reps))
            shift = symx.choose("second_writer_other_pid", 2)
            c1, k1 = reps[ri]
            st1, ev2, post2, err = second_writer(ri, shift)
            if err is not None:
                rec.refute(ctx, True, "second writer behaves as if the entry were absent (searches and stores)",
                           lambda m: dict(item=item, crashes=[[c1, k1, 0]], detail="second writer raised " + err, signature=["C15", "double", item["opt"], item["case"], "writer2", err[:40]]))
                return
            n2 = len(ev2)
            w2 = {i: len(e[2]) for i, e in enumerate(ev2) if e[0] == "write"}
            c2 = ctx.concretize(symx.sym_int("crash2_before_event", 0, n2).e)
            k2 = 0
            if c2 in w2:
                k2 = ctx.concretize(symx.sym_int("bytes_written2", 0, w2[c2]).e)
            st2 = apply_events(st1, ev2, c2, k2) if c2 < n2 else dict(post2)
            counter[0] += 1
            root = os.path.join(work, f"r{counter[0]}")
            materialise(st2, root)
            ok, detail = reader_check(item, root, pid_shift=2)
            shutil.rmtree(root, ignore_errors=True)
            outcomes[detail if ok else "FAIL"] = outcomes.get(detail if ok else "FAIL", 0) + 1
            rec.refute(ctx, not ok, "after two crashed writers the later process finds the complete entry or behaves as if absent",
                       lambda m: dict(item=item, crashes=[[c1, k1, 0], [c2, k2, shift]], detail=detail, signature=["C15", "double", item["opt"], item["case"], item["split"], detail[:60]]))
            return ri, c2, k2

        out = symx.explore(harness, max_paths=20000, max_enum=4096, deadline_s=900)
        rec.add_explore(out)
        rec.sample(dict(item={k: v for k, v in item.items() if k != "tier"}, first_crash_representatives=[list(r) for r in reps], paths=out.paths, outcomes=outcomes))
        rec.validated += 1
    finally:
        shutil.rmtree(work, ignore_errors=True)


_WRITER = r"""
import sys, os, warnings
warnings.simplefilter("ignore")
sys.path.insert(0, __import__("os").environ["VERIF_ROOT"])
import json
from checks import c15
item = json.loads(sys.argv[1]); d = sys.argv[2]; target_event = int(sys.argv[3]); k = int(sys.argv[4]); shift = int(sys.argv[5])
tr = c15.Tracer(d)
class L(list):
    def append(self, ev):
        idx = len(self)
        if idx == target_event and ev[0] != "write":
            os._exit(17)
        list.append(self, ev)
tr.events = L()
# partial flush: k bytes of the buffer reach the file, then the process dies
orig_emit = c15.TracedFile._emit
def _emit(self):
    idx = len(self.tr.events)
    if self.buf and idx == target_event:
        self.f.write(self.buf[:k]); self.f.flush(); os._exit(17)
    return orig_emit(self)
c15.TracedFile._emit = _emit
with c15.as_pid(shift):
    c15.traced_writer(item, d, tr)
os._exit(0 if target_event >= len(tr.events) else 3)
"""

_READER = r"""
import sys, warnings, json
warnings.simplefilter("ignore")
sys.path.insert(0, __import__("os").environ["VERIF_ROOT"])
from checks import c15
item = json.loads(sys.argv[1])
ok, detail = c15.reader_check(item, sys.argv[2], auto=(len(sys.argv) > 3 and sys.argv[3] == "1"), listing_first=(sys.argv[4] if len(sys.argv) > 4 and sys.argv[4] else None))
print(json.dumps([ok, detail]))
"""


def _listed_first(v, d):
    """the entry the symbolic run listed first; a temporary file carries the writer's pid in its name, so it is
    matched by its stem in the directory the real (killed) writer left"""
    first = v.get("listed_first")
    if not first or not os.path.isdir(d):
        return ""
    names = os.listdir(d)
    if first in names:
        return first
    stem = first.split(".tmp")[0]
    cand = [x for x in names if x.split(".tmp")[0] == stem and (".tmp" in x) == (".tmp" in first)]
    return cand[0] if cand else ""


def replay(v):
    """real writer process(es) killed with os._exit at the crash point(s), then a real reader process"""
    import json

    item = v["item"]
    work = tempfile.mkdtemp(prefix="verif_c15_replay_")
    try:
        d = os.path.join(work, "cache")
        prehistory(item, d)
        env = dict(os.environ, PYTHONPATH=os.pathsep.join([VERIF_ROOT] + [x for x in os.environ.get("PYTHONPATH", "").split(os.pathsep) if x]), VERIF_ROOT=VERIF_ROOT)
        for c, k, shift in v["crashes"]:
            p = subprocess.run([sys.executable, "-W", "ignore", "-c", _WRITER, json.dumps(item), d, str(c), str(k), str(shift)], capture_output=True, text=True, env=env, timeout=300)
            if p.returncode not in (17, 0):
                if "double" in item and "second writer raised" in v.get("detail", ""):
                    return True, f"after a writer killed at {v['crashes'][0][:2]}, the next writer process fails: {p.stderr.strip().splitlines()[-1][:200] if p.stderr.strip() else p.returncode}"
                return False, f"writer process did not reach the crash point (exit {p.returncode}): {p.stderr[-300:]}"
        if "second writer raised" in v.get("detail", ""):
            # the failing process is an uncrashed second writer
            p = subprocess.run([sys.executable, "-W", "ignore", "-c", _WRITER, json.dumps(item), d, "1000000", "0", "0"], capture_output=True, text=True, env=env, timeout=300)
            if p.returncode != 0:
                return True, f"after a writer killed at {v['crashes'][0][:2]}, the next writer process fails: {(p.stderr.strip().splitlines() or [p.returncode])[-1]}"[:300]
            return False, "second writer runs fine"
        r = subprocess.run([sys.executable, "-W", "ignore", "-c", _READER, json.dumps(item), d, "1" if v.get("reader_auto") else "0", _listed_first(v, d)], capture_output=True, text=True, env=env, timeout=300)
        if r.returncode != 0:
            return True, f"reader process crashed: {r.stderr[-300:]}"
        ok, detail = json.loads(r.stdout.strip().splitlines()[-1])
        if not ok:
            return True, f"writer(s) killed at (event, bytes, pid-shift) {v['crashes']}; later process{' (directory_split left at its default; the directory lists ' + repr(v.get('listed_first')) + ' first)' if v.get('reader_auto') else ''}: {detail}"
        return False, f"later process behaves correctly ({detail})"
    finally:
        shutil.rmtree(work, ignore_errors=True)


if __name__ == "__main__":
    sys.exit(main("checks.c15"))
