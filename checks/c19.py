"""C19 -- exponent stripping preserves the value.

The real strip branch of Contractor.__call__, add_maybe_exponent_stripped,
gather_slices' rescale-and-stack, _wrap_strip_exponent_final and contract /
einsum(strip_exponent=True) run on arrays whose elements are Laurent-monomial
bookkept values (vlib/laurent.py): numerator polynomials are z3 Reals, every
|.| is an atom constrained on the path condition, max forks on the arg-max
(z3 decides each comparison), log10 / 10** are formal and exact.
Assertion on every path (with every normalisation atom > 0, i.e. the result
is non-zero along the path): the monomial of mantissa * 10^exponent is empty
(all factors cancel -- syntactic) and numerator(mantissa) == plain einsum
polynomial (one z3 query).  check_zero=True returns (0.0, -inf) only where the
path condition forces an intermediate to be identically zero.
Per-tensor positive scale factors are extra symbolic multipliers.

For sliced trees a normalisation lemma is proved in addition: the exponent
returned by gather_slices is the largest of the slice exponents (a necessary
real-arithmetic condition for the float-range clause, not the clause itself).

NOT claimed (cannot be encoded): the second sentence of the property (finite
and correct where IEEE doubles would overflow / underflow for magnitudes in
1e-100..1e100) -- a floating-point range statement about a multi-step numpy
contraction with log10 and 10**x; over the reals it is vacuous.
"""

import sys
import warnings

import numpy as np
import z3

from vlib import laurent, skel, symarr, symx
from vlib.laurent import FLog, Q
from vlib.runner import main

PROPERTY = "C19"
STUBS = ["Laurent bookkeeping elements (vlib/laurent.py) registered with autoray as numpy-like; numpy's object-dtype ufuncs dispatch abs / log10 to the element methods"]
ASSUMPTIONS = [
    "arithmetic over the reals; log10 and 10** are exact (formal)",
    "every normalisation factor is > 0 on the path (premise of the property: the result is non-zero)",
    "dims are 2 (arg-max paths grow with the number of entries)",
]
OUTSIDE = [
    "second sentence of C19: behaviour of IEEE doubles for scales 1e-100..1e100 (overflow / underflow) -- not encodable with this technique",
    "more than 2 sliced indices, N > 3",
]


def bounds(tier):
    if tier == "quick":
        return dict(skeletons="N<=3 rank<=2 <=3 labels (every 4th), output rank<=1", trees="all", dims=2, sliced="none, each single index (inner or output), one pair", extras="per-tensor scale factors symbolic; single-tensor expressions; check_zero")
    return dict(skeletons="N<=3 rank<=2 <=4 labels (every 2nd), output rank<=2", trees="all", dims=2, sliced="none, every single index, every pair")


def items(tier, seed):
    if tier == "quick":
        sk = (skel.skeletons(2, 2, 3, 1) + skel.skeletons(3, 2, 3, 1))[::4]
    else:
        sk = (skel.skeletons(2, 2, 4, 2) + skel.skeletons(3, 2, 4, 2))[::2]
    its = []
    for i in range(0, len(sk), 2):
        its.append({"kind": "tree", "skeletons": [[list(a), b] for a, b in sk[i : i + 2]], "tier": tier, "k": i})
    its.append({"kind": "single", "tier": tier})
    return its


def q_arrays(inputs, size, scaled):
    arrs = []
    scales = []
    for k, t in enumerate(inputs):
        shape = tuple(size[c] for c in t)
        a = np.empty(shape, dtype=object)
        s = None
        if scaled:
            s = z3.Real(f"s{k}")
            symx.CTX.assume(s > 0)
            scales.append(s)
        for idx in np.ndindex(*shape):
            e = z3.Real(f"x{k}[{','.join(map(str, idx))}]")
            a[idx] = Q(e * s if s is not None else e)
        arrs.append(a)
    return arrs, scales


def plain_arrays(qarrs):
    out = []
    for a in qarrs:
        b = np.empty(a.shape, dtype=object)
        for idx in np.ndindex(*a.shape):
            b[idx] = a[idx].n
        out.append(b)
    return out


def judge(ctx, rec, m, e, ref, label, viol):
    """m: mantissa array of Q, e: FLog / 0.0"""
    for A in Q.atoms:
        ctx.assume(A > 0)
    m = symarr.as_obj_array(m)
    ref = symarr.as_obj_array(ref)
    if m.shape != ref.shape:
        rec.refute(ctx, True, label, viol)
        return
    em = e.m if isinstance(e, FLog) else {}
    if not isinstance(e, FLog) and not (isinstance(e, (int, float)) and e == 0):
        rec.refute(ctx, True, label, viol)
        return
    bads = []
    for idx in np.ndindex(*ref.shape):
        q = Q.of(m[idx])
        tot = laurent.mono_mul(q.m, em)
        if tot:
            # factors do not cancel syntactically: compare as rational expressions
            num, den = laurent.mono_term(tot)
            bads.append(z3.simplify(q.n * num - symarr.lift_real(ref[idx]) * den, som=True) != 0)
        else:
            # sum-of-monomials normal form (z3's rewriter) so that the polynomial identity is immediate
            bads.append(z3.simplify(q.n - symarr.lift_real(ref[idx]), som=True) != 0)
    rec.refute_identity(ctx, z3.Or(bads) if bads else False, label, viol)


def run_tree(item, rec):
    from cotengra.core import ContractionTree

    tier = item["tier"]
    for si, (inputs, output) in enumerate(item["skeletons"]):
        inputs = tuple(inputs)
        n = len(inputs)
        labels = skel.all_labels(inputs)
        size = {c: 2 for c in labels}
        slice_cfgs = [()] + [(c,) for c in labels]
        if len(labels) >= 2:
            slice_cfgs.append((labels[0], labels[-1]))
            if tier != "quick":
                import itertools

                slice_cfgs = [()] + [(c,) for c in labels] + list(itertools.combinations(labels, 2))
        for ti, ssa in enumerate(skel.all_trees(n)):
            for ci, cfg in enumerate(slice_cfgs):
                if tier == "quick" and cfg and (ci + ti + si) % 2:
                    continue
                for scaled in ((False, True) if not cfg else (False,)):
                    for cz in ((False, True) if (not cfg and not scaled and (n == 2 or (tier != 'quick' and ti == 0))) else (False,)):
                        case = dict(inputs=list(inputs), output=output, ssa=[list(p) for p in ssa], sliced=list(cfg), scaled=scaled, check_zero=cz)

                        cur = {}

                        def harness(ctx, ssa=ssa, cfg=cfg, scaled=scaled, cz=cz, case=case, cur=cur):
                            laurent.reset()
                            arrs, scales = q_arrays(inputs, size, scaled)
                            cur["arrs"] = arrs
                            ref = symarr.dense_einsum(inputs, output, size, plain_arrays(arrs))
                            tree = ContractionTree.from_path(inputs, output, size, ssa_path=ssa)
                            for ix in cfg:
                                tree.remove_ind_(ix)
                            res = tree.contract(arrs, strip_exponent=True, check_zero=cz)

                            def viol(mdl):
                                vals = [[float(symx.eval_model(mdl, a[idx].n)) for idx in np.ndindex(*a.shape)] for a in arrs]
                                return dict(case=case, arrays=vals, signature=["C19", list(inputs), output, str(ssa), list(cfg), scaled, cz])

                            if not (isinstance(res, tuple) and len(res) == 2):
                                rec.refute(ctx, True, "strip_exponent returns (mantissa, exponent)", viol)
                                return
                            m, e = res
                            if cz and isinstance(m, float) and m == 0.0:
                                # early exit: only legitimate if the plain result is identically zero on this path
                                bad = z3.Or([symarr.lift_real(ref_i) != 0 for ref_i in symarr.as_obj_array(ref).ravel()])
                                rec.refute(ctx, bad, "check_zero exit only when the result is zero", viol, timeout_ms=5000)
                                return
                            judge(ctx, rec, m, e, ref, "mantissa * 10^exponent == plain contraction", viol)
                            if not cfg and n >= 2 and isinstance(e, FLog):
                                # second normalisation lemma (again a real-arithmetic NECESSARY condition for the float-range
                                # sentence): every pairwise step is rescaled, so the mantissa that comes back has max |entry| == 1
                                mm = symarr.as_obj_array(m)
                                nots = []
                                normalised = False
                                for idx in np.ndindex(*mm.shape):
                                    q = Q.of(mm[idx])
                                    if len(q.m) == 1:
                                        (a, pw), = q.m.items()
                                        # entry == n / |n| for the very polynomial n the atom stands for: |entry| == 1 (bookkeeping, no query)
                                        if pw == -1 and a in Q.atom_def and z3.is_true(z3.simplify(Q.atom_def[a] == q.n)) or (pw == -1 and a in Q.atom_def and Q.atom_def[a].eq(q.n)):
                                            normalised = True
                                            break
                                    num, den = laurent.mono_term(q.m)
                                    nots.append(q.n * q.n * num * num != den * den)
                                if normalised:
                                    rec.refute(ctx, False, "returned mantissa is normalised (max |entry| == 1)", viol, reach_probe=False)
                                else:
                                    rec.refute(ctx, z3.And(nots) if nots else False, "returned mantissa is normalised (max |entry| == 1)", viol, reach_probe=False, timeout_ms=1500)
                            if cfg:
                                # normalisation lemma behind the float-range clause (a real-arithmetic NECESSARY
                                # condition, not the clause itself): the exponent handed back by gather_slices is
                                # the exponent of one of the slices, and no slice has a larger one
                                sl = [tree.contract_slice(arrs, i, strip_exponent=True) for i in range(tree.nslices)]
                                for A in Q.atoms:
                                    ctx.assume(A > 0)
                                es = [x[1] for x in sl if isinstance(x, tuple) and isinstance(x[1], FLog)]
                                m2, e2 = tree.gather_slices(sl)
                                bads = []
                                if not es:
                                    pass
                                elif not isinstance(e2, FLog) or not any(e2.m == ei.m for ei in es):
                                    bads.append(z3.BoolVal(True))
                                else:
                                    for ei in es:
                                        d = laurent.mono_mul(ei.m, e2.m, -1)
                                        if d:
                                            num, den = laurent.mono_term(d)
                                            bads.append(num > den)  # some slice exponent exceeds the returned one
                                rec.refute(ctx, z3.Or(bads) if bads else False, "gathered exponent == max of the slice exponents (normalisation)", viol, reach_probe=False, timeout_ms=1500)

                        rec.add_explore(symx.explore(rec.guard_harness(harness, "mantissa * 10^exponent == plain contraction", lambda mdl, case=case, cur=cur, ssa=ssa, cfg=cfg, scaled=scaled, cz=cz: dict(
                            case=case, arrays=[[float(symx.eval_model(mdl, a[idx].n)) for idx in np.ndindex(*a.shape)] for a in cur["arrs"]],
                            signature=["C19", list(inputs), output, str(ssa), list(cfg), scaled, cz])),
                            max_paths=(250 if tier == "quick" else 4000), deadline_s=(12 if tier == "quick" else 300), timeout_ms=(300 if tier == "quick" else 1500)))
        rec.sample(dict(inputs=list(inputs), output=output, dims=2, slice_configs=len(slice_cfgs), entries="z3 Reals with Laurent-monomial bookkeeping"))
    # engine validation: real floats
    inputs, output = item["skeletons"][0]
    inputs = tuple(inputs)
    labels = skel.all_labels(inputs)
    size = {c: 2 for c in labels}
    conc = symarr.generic_arrays(inputs, size, seed=2)
    tree = ContractionTree.from_path(inputs, output, size, ssa_path=skel.all_trees(len(inputs))[0])
    m, e = tree.contract(conc, strip_exponent=True)
    if np.allclose(np.asarray(m) * 10.0 ** float(e), symarr.np_reference(inputs, output, size, conc)):
        rec.validated += 1


def run_single(item, rec):
    """single-operand expressions and the high level einsum / array_contract entry"""
    import cotengra as ctg

    cases = [("ab->ab", (2, 2)), ("ab->ba", (2, 2)), ("aab->b", (2, 2, 2)), ("ab->", (2, 2)), ("ab,bc->ac", None), ("ab,bc,ca->", None), ("a,a->a", None)]
    for eq, shp in cases:
        lhs, out = eq.split("->")
        inputs = tuple(lhs.split(","))
        labels = skel.all_labels(inputs)
        size = {c: 2 for c in labels}
        case = dict(eq=eq)

        def harness(ctx, eq=eq, inputs=inputs, out=out, size=size, case=case):
            laurent.reset()
            arrs, _ = q_arrays(inputs, size, False)
            ref = symarr.dense_einsum(inputs, out, size, plain_arrays(arrs))
            ctg.interface._CONTRACT_EXPR_CACHE.clear()
            res = ctg.einsum(eq, *arrs, strip_exponent=True)

            def viol(mdl):
                return dict(case=case, arrays=[[float(symx.eval_model(mdl, a[idx].n)) for idx in np.ndindex(*a.shape)] for a in arrs], signature=["C19s", eq])

            if not (isinstance(res, tuple) and len(res) == 2):
                rec.refute(ctx, True, "einsum(strip_exponent=True) returns (mantissa, exponent)", viol)
                return
            judge(ctx, rec, res[0], res[1], ref, "einsum(strip_exponent=True): mantissa * 10^exponent == plain", viol)

        rec.add_explore(symx.explore(harness, max_paths=400, deadline_s=30, timeout_ms=300))
        rec.sample(dict(entry="cotengra.einsum(strip_exponent=True)", eq=eq))
    rec.validated += 1


def run_item(item, rec):
    warnings.simplefilter("ignore")
    (run_tree if item["kind"] == "tree" else run_single)(item, rec)


def replay(v):
    warnings.simplefilter("ignore")
    import cotengra as ctg
    from cotengra.core import ContractionTree

    case = v["case"]
    if "eq" in case:
        eq = case["eq"]
        lhs, out = eq.split("->")
        inputs = tuple(lhs.split(","))
        size = {c: 2 for c in skel.all_labels(inputs)}
        arrays = [np.array(a, dtype=float).reshape(tuple(size[c] for c in t)) for a, t in zip(v["arrays"], inputs)]
        want = symarr.np_reference(inputs, out, size, arrays)
        ctg.interface._CONTRACT_EXPR_CACHE.clear()
        try:
            res = ctg.einsum(eq, *arrays, strip_exponent=True)
        except Exception as e:  # noqa
            return True, f"einsum({eq!r}, strip_exponent=True) raised {e!r}"
        if not (isinstance(res, tuple) and len(res) == 2):
            return True, "did not return (mantissa, exponent)"
        val = np.asarray(res[0], dtype=float) * 10.0 ** float(res[1])
        if val.shape != want.shape or not np.allclose(val, want, rtol=1e-8, atol=1e-12):
            return True, f"einsum({eq!r}, strip_exponent=True): mantissa*10^exponent = {val.ravel()[:4]} vs plain {want.ravel()[:4]}"
        return False, "agrees"
    inputs, output = tuple(case["inputs"]), case["output"]
    size = {c: 2 for c in skel.all_labels(inputs)}
    arrays = [np.array(a, dtype=float).reshape(tuple(size[c] for c in t)) for a, t in zip(v["arrays"], inputs)]
    tree = ContractionTree.from_path(inputs, output, size, ssa_path=[tuple(p) for p in case["ssa"]])
    for ix in case["sliced"]:
        tree.remove_ind_(ix)
    want = symarr.np_reference(inputs, output, size, arrays)
    if v["label"].startswith("returned mantissa is normalised"):
        try:
            m2, e2 = tree.contract(arrays, strip_exponent=True, check_zero=case["check_zero"])
        except Exception as e:  # noqa
            return True, f"real code raised {e!r}"
        mx = float(np.max(np.abs(m2)))
        if mx != 0 and abs(mx - 1.0) > 1e-9:
            return True, (f"{','.join(inputs)}->{output}: strip_exponent returns a mantissa with max |entry| = {mx:.6g} (exponent {float(e2):.4f}): some pairwise step is not rescaled, "
                          "so the protection against overflow / underflow is lost along such steps")
        return False, "mantissa normalised"
    if v["label"].startswith("gathered exponent"):
        try:
            sl = [tree.contract_slice(arrays, i, strip_exponent=True) for i in range(tree.nslices)]
            m2, e2 = tree.gather_slices(sl)
        except Exception as e:  # noqa
            return True, f"gather_slices raised {e!r}"
        emax = max(float(x[1]) for x in sl)
        if np.isfinite(emax) and abs(float(e2) - emax) > 1e-9:
            return True, f"{','.join(inputs)}->{output} sliced {case['sliced']}: slice exponents {[round(float(x[1]), 3) for x in sl]} but gather_slices returns exponent {float(e2):.3f} (mantissa max {np.max(np.abs(m2)):.3g}): the mantissa is no longer normalised, so it underflows for small scales"
        return False, "gathered exponent is the largest slice exponent"
    try:
        res = tree.contract(arrays, strip_exponent=True, check_zero=case["check_zero"])
    except Exception as e:  # noqa
        return True, f"contract(strip_exponent=True) raised {e!r}"
    if not (isinstance(res, tuple) and len(res) == 2):
        return True, "did not return (mantissa, exponent)"
    m, e = res
    with np.errstate(all="ignore"):
        val = np.asarray(m, dtype=float) * 10.0 ** float(e) if np.isfinite(float(e)) else np.zeros(want.shape)
    if np.all(want == 0) and not np.allclose(np.nan_to_num(val), 0):
        return False, "plain result is zero (outside the premise)"
    if np.shape(val) != want.shape or not np.allclose(val, want, rtol=1e-8, atol=1e-12):
        return True, f"{','.join(inputs)}->{output} sliced {case['sliced']}: mantissa*10^exponent = {np.ravel(val)[:4]} vs plain {want.ravel()[:4]}"
    return False, "agrees"


if __name__ == "__main__":
    sys.exit(main("checks.c19"))
