"""C02 -- tree transformations never change the value the tree computes.

Symbolic: every array entry (z3 Real); every RNG draw of every transformation
(SymRng through the public seed= argument, the global generator through a
stub of cotengra.utils.random); which index is sliced / projected / restored
and the projected value; the operation sequence is covered level-wise (all
sequences of length <= K over the operation menu, states de-duplicated).
After every operation: tree.contract(arrays) == the original einsum
polynomial with the declared output order (fixed-index section for
projections).
"""

import sys
import warnings

import numpy as np
import z3

from vlib import history, skel, stubs, symarr, symx
from vlib.runner import main

PROPERTY = "C02"
STUBS = [
    "SymRng via seed= for subtree_reconfigure(_forest) / simulated_anneal / parallel_temper / slice / unslice_rand",
    "cotengra.utils.random -> GlobalRandomStub (calls that take no seed: slice_ inside slice_and_reconfigure, subtree_reconfigure inside the forest)",
    "path_simulated_annealing.math.log(u) -> fresh real <= 0 for a uniform draw u; slicer.log: log(-log(u)) -> arbitrary real",
    "autoray.register_backend(z3.ArithRef, 'numpy')",
]
ASSUMPTIONS = [
    "index sizes are concrete (optimisers take logarithms of costs); two size assignments per network",
    "arithmetic over the reals",
    "a projected OUTPUT index keeps a length-1 axis (cotengra's representation of the section)",
]
OUTSIDE = ["histories longer than K", "forest variants with real process pools", "annealing schedules longer than tsteps*numiter <= 2"]

NETWORKS = [
    (("aab", "abc", "cd", "d"), "", "diag-shared"),
    (("abx", "bcx", "cdx", "dx"), "a", "hyper-inner"),
    (("ab", "bc", "cd", "da"), "", "ring4"),
    (("ab", "bc", "cd", "de"), "ae", "chain4-out2"),
    (("abx", "bcx", "cdx"), "ax", "hyper-batch"),
    (("ab", "bc", "cd", "d"), "a", "chain-vec"),
    (("aab", "bc", "cd", "de"), "ea", "trace-leaf-out2"),
    (("ab", "bc", "", "cd"), "ad", "scalar-in"),
    (("ab", "cd", "bd", "ac", "e"), "e", "disconnected"),
    (("ab", "bc", "cd", "de", "ea"), "", "ring5"),
    (("abc", "cde", "efa", "bdf"), "", "rank3-k4"),
    (("ab", "bcd", "de", "ef", "fa"), "cd", "out-mid"),
]


def bounds(tier):
    if tier == "quick":
        return dict(networks="6 fixed networks (ring, chain with 2 outputs, hyper/batch index, vector, trace leaf, scalar input)", K=2, initial_trees=["greedy", "caterpillar"],
                    menu="21 operations (see vlib/history.op_menu)", caps="<=16 states carried to level 2 (round-robin over the kinds of the last operations), <=25 paths per (state, op) (first paths in DFS order; the rest is reported as budget)")
    return dict(networks="10 fixed networks N in 4..5", K=3, initial_trees=["greedy", "caterpillar"], menu="31 operations", caps="<=80 states per level, <=400 paths per (state, op)")


def items(tier, seed):
    nets = NETWORKS[:8] if tier == "quick" else NETWORKS
    its = []
    for ni, (inputs, output, name) in enumerate(nets):
        for init in ("greedy", "caterpillar"):
            for sv in (0, 1):
                if tier == "quick" and sv != ni % 2:
                    continue
                its.append({"inputs": list(inputs), "output": output, "name": name, "init": init, "sizes": sv, "tier": tier})
    # deep annealing runs: several temperature steps with slicing in between (more draws than the history driver can
    # leave fully symbolic): the first draws are solver-chosen one by one, the rest come from a solver-chosen stream
    for ni, (inputs, output, name) in enumerate(NETWORKS):
        if len(inputs) < 4:
            continue
        modes = ("basic", "reslice", 1, "drift")
        for mi, mode in enumerate(modes):
            if tier == "quick" and (ni + mi) % 4:
                continue
            its.append({"deep": True, "inputs": list(inputs), "output": output, "name": name, "init": ("caterpillar" if (ni + mi) % 2 else "greedy"), "sizes": 0, "slice_mode": mode, "tier": tier})
            if tier != "quick" or (ni + mi) % 8 == 1:
                its.append({"deep": True, "inputs": list(inputs), "output": output, "name": name, "init": ("caterpillar" if (ni + mi) % 2 else "greedy"), "sizes": 1, "slice_mode": mode, "tier": tier})
    return its


def size_of(labels, sv):
    if sv == 0:
        return {c: 2 for c in labels}
    s = {c: 2 + (i % 2) for i, c in enumerate(labels)}
    s[labels[-1]] = 1
    return s


def initial_tree(inputs, output, size, init):
    from cotengra.core import ContractionTree

    n = len(inputs)
    if init == "greedy":
        from cotengra.pathfinders.path_basic import optimize_greedy

        path = optimize_greedy(inputs, output, size, use_ssa=True)
        return ContractionTree.from_path(inputs, output, size, ssa_path=path, autocomplete=True)
    ssa = []
    cur = 0
    for i in range(1, n):
        ssa.append((cur, i))
        cur = n + i - 1
    return ContractionTree.from_path(inputs, output, size, ssa_path=ssa)


def initial_states(t0, labels, size):
    """the fresh tree, the tree with one index already sliced, and with one index already projected"""
    import copy

    # every initial state is its own object graph (deep copy): states must not be able to influence each other
    # through members that a (possibly changed) tree.copy() shares
    out = [(t0, [])]
    if labels:
        ix = labels[0]
        out.append((copy.deepcopy(t0).remove_ind(ix, inplace=True), [dict(op="slice_ind", params={"ix": ix, "inplace": True})]))
        big = [c for c in labels if size[c] > 1]
        if big:
            jx = big[-1]
            out.append((copy.deepcopy(t0).remove_ind(jx, project=size[jx] - 1, inplace=True), [dict(op="project_ind", params={"ix": jx, "value": size[jx] - 1, "inplace": True})]))
    return out


def reference(inputs, output, size, arrays, tree, cache):
    pv = {ix: si.project for ix, si in tree.sliced_inds.items() if si.project is not None}
    key = tuple(sorted(pv.items()))
    if key not in cache:
        ref = symarr.as_obj_array(symarr.dense_einsum(inputs, output, size, arrays, fixed=pv))
        for pos, ix in enumerate(output):
            if ix in pv:
                ref = np.expand_dims(ref, pos)
        cache[key] = ref
    return cache[key], pv


def deep_anneal(tree, rng, mode, target):
    return tree.simulated_anneal(tsteps=3, numiter=2, tstart=2.0, tfinal=0.5, target_size=target, slice_mode=mode, seed=rng, inplace=True)


def run_deep(item, rec):
    tier = item["tier"]
    inputs, output = tuple(item["inputs"]), item["output"]
    labels = skel.all_labels(inputs)
    size = size_of(labels, item["sizes"])
    arrays = symarr.sym_arrays(inputs, size)
    ref = symarr.as_obj_array(symarr.dense_einsum(inputs, output, size, arrays))
    mode = item["slice_mode"]
    target = max(2, initial_tree(inputs, output, size, item["init"]).max_size() // 2)
    case0 = dict(inputs=list(inputs), output=output, size=size, init=item["init"], deep=True, slice_mode=mode, target=target)

    def harness(ctx):
        import random as _r

        _r.seed(4242)
        tree = initial_tree(inputs, output, size, item["init"])
        rng = stubs.SymRng("an", uniform_mode="grid", random_mode="grid", free_draws=5)
        rng.TAIL_STREAMS = 6

        def viol(m):
            return dict(case=case0, history=[], script=[[k, (list(x) if isinstance(x, (list, tuple)) else x)] for k, x in stubs.script_from_model(m, rng)],
                        arrays=[a.tolist() for a in symarr.model_arrays(m, arrays)], signature=["C02deep", item["name"], item["init"], str(mode)])

        with rec.guarded(ctx, "value after a multi-step annealing run == original einsum", viol):
            deep_anneal(tree, rng, mode, target)
            got = symarr.as_obj_array(tree.contract(arrays))
        bad = True if got.shape != ref.shape else symarr.diff_formula(got, ref)
        rec.refute(ctx, bad, "value after a multi-step annealing run == original einsum", viol)
        return len(rng.draws)

    out = symx.explore(harness, max_paths=(2500 if tier == "quick" else 40000), deadline_s=(25 if tier == "quick" else 300))
    rec.add_explore(out)
    rec.sample(dict(network=item["name"], deep_anneal=dict(tsteps=3, numiter=2, target_size=target, slice_mode=str(mode)), paths=out.paths,
                    rng="first 5 draws solver-chosen (grid), then one of 6 solver-chosen pseudo-random streams", draws_per_run=sorted(set(r for r in out.results if r))[-3:]))
    rec.validated += 1


def run_item(item, rec):
    warnings.simplefilter("ignore")
    if item.get("deep"):
        return run_deep(item, rec)
    tier = item["tier"]
    inputs, output = tuple(item["inputs"]), item["output"]
    labels = skel.all_labels(inputs)
    size = size_of(labels, item["sizes"])
    arrays = symarr.sym_arrays(inputs, size)
    cache = {}
    t0 = initial_tree(inputs, output, size, item["init"])
    max_size = max(t0.max_size(), 2)
    t0 = initial_tree(inputs, output, size, item["init"])
    case0 = dict(inputs=list(inputs), output=output, size=size, init=item["init"])
    env = {"arrays": arrays, "case": case0}

    def check(ctx, tree, hist):
        ref, pv = reference(inputs, output, size, arrays, tree, cache)
        warm = tree.copy()
        try:
            got = warm.contract(arrays)
        except (symx.PathAbort, symx.Unsupported, symx.Budget):
            raise
        except Exception as e:  # noqa
            rec.concrete_violation("contract raised after history", dict(case=case0, history=hist, error=repr(e), signature=["C02", "raise", repr(e)[:60], str([h["op"] for h in hist])]))
            return
        got = symarr.as_obj_array(got)
        bad = symarr.diff_formula(got, ref)
        ops = [h["op"] for h in hist]

        def viol(m):
            d = dict(case=case0, history=hist, got_shape=list(got.shape), want_shape=list(ref.shape), arrays=[a.tolist() for a in symarr.model_arrays(m, arrays)],
                     signature=["C02", item["name"], item["init"], str(ops)])
            d["finding_key"] = classify(tree, got, ref, hist)
            return d

        rec.refute(ctx, bad, "value after history == original einsum", viol)
        # the same tree with warm contraction caches is a state of its own
        return [(warm, hist + [dict(op="q_contract", params={})])]

    menu = history.op_menu(tier, max_size)
    K = 2 if tier == "quick" else 3
    n_states = history.explore_histories(
        rec, initial_states(t0, labels, size), menu, K, check, env,
        max_states_per_level=int(__import__("os").environ.get("VERIF_HIST_STATES", 16 if tier == "quick" else 80)),
        max_paths_per_op=(25 if tier == "quick" else 400),
        deadline_per_op=(4.0 if tier == "quick" else 25.0),
    )
    rec.sample(dict(network=item["name"], inputs=list(inputs), output=output, size=size, init=item["init"], K=K, distinct_states=n_states, entries="z3 Reals", rng="every draw symbolic"))
    # engine validation: a concrete greedy+anneal run against numpy reference
    conc = symarr.generic_arrays(inputs, size, seed=4)
    t = initial_tree(inputs, output, size, item["init"]).subtree_reconfigure(subtree_size=3, maxiter=2)
    if np.allclose(t.contract(conc), symarr.np_reference(inputs, output, size, conc)):
        rec.validated += 1


def classify(tree, got, ref, hist):
    return None


def replay(v):
    warnings.simplefilter("ignore")
    case = v["case"]
    inputs, output, size = tuple(case["inputs"]), case["output"], case["size"]
    hist = v["history"]
    if case.get("deep"):
        tries = []
        if v.get("arrays"):
            tries.append([np.array(a, dtype=float).reshape(tuple(size[c] for c in t)) for a, t in zip(v["arrays"], inputs)])
        tries.append(symarr.generic_arrays(inputs, size, seed=13))
        for arrays in tries:
            import random as _r

            _r.seed(4242)
            tree = initial_tree(inputs, output, size, case["init"])
            try:
                deep_anneal(tree, stubs.ScriptedRng([tuple(x) for x in v["script"]]), case["slice_mode"], case["target"])
                got = np.asarray(tree.contract(arrays))
            except Exception as e:  # noqa
                if v.get("raised"):
                    return True, f"simulated_anneal(tsteps=3, numiter=2, target_size={case['target']}, slice_mode={case['slice_mode']!r}) + contract raised {e!r} on the solver's draw sequence"
                return False, f"replay raised {e!r} (scripted rng diverged?)"
            want = symarr.np_reference(inputs, output, size, arrays)
            if got.shape != want.shape or not np.allclose(got, want, rtol=1e-9, atol=1e-12):
                return True, (f"{','.join(inputs)}->{output}: after simulated_anneal(tsteps=3, numiter=2, target_size={case['target']}, slice_mode={case['slice_mode']!r}) on the solver's draw "
                              f"sequence ({len(v['script'])} draws) the tree (sliced {sorted(tree.sliced_inds)}) contracts to a different value (max deviation {np.max(np.abs(got - want)) if got.shape == want.shape else 'shape'})")
        return False, "value preserved on the recorded draw sequence"
    tries = []
    if v.get("arrays"):
        tries.append([np.array(a, dtype=float).reshape(tuple(size[c] for c in t)) for a, t in zip(v["arrays"], inputs)])
    tries.append(symarr.generic_arrays(inputs, size, seed=13))
    for arrays in tries:
        tree = initial_tree(inputs, output, size, case["init"])
        try:
            def observe(t, arrays=arrays):
                # the driver contracts a copy of every state it reaches
                try:
                    t.copy().contract(arrays)
                except Exception:  # noqa -- judged below, on the final tree
                    pass

            tree = history.replay_history(tree, hist, arrays=arrays, observe=observe)
        except Exception as e:  # noqa
            if v["label"].startswith("transformation raised"):
                return True, f"history {[h['op'] for h in hist]} raised {e!r}"
            return False, f"replay of the history itself raised {e!r} (scripted rng diverged?)"
        pv = {ix: si.project for ix, si in tree.sliced_inds.items() if si.project is not None}
        want = symarr.np_reference(inputs, output, size, arrays, fixed=pv)
        for pos, ix in enumerate(output):
            if ix in pv:
                want = np.expand_dims(want, pos)
        try:
            got = np.asarray(tree.contract(arrays))
        except Exception as e:  # noqa
            return True, f"contract raised {e!r} after {[h['op'] for h in hist]}"
        if got.shape != want.shape:
            return True, f"after {[h['op'] for h in hist]}: result shape {got.shape} != declared {want.shape}"
        if not np.allclose(got, want, rtol=1e-9, atol=1e-12):
            return True, f"after {[h['op'] for h in hist]}: value differs from the einsum (max|d|={np.max(np.abs(got - want)):.3g})"
    return False, "real code agrees with the reference after the replayed history"


if __name__ == "__main__":
    sys.exit(main("checks.c02"))
