"""C09 -- the 'optimal' pathfinder really is optimal.

Symbolic: every index size d_x in [1, D] and the initial cost_cap (the sieve /
doubling logic named in the property).  Enumerated: admissible skeletons
(connected, nothing to pre-simplify), objectives, search_outer, and ALL
(2n-3)!! binary trees as competitors (the outer-product-free ones when outer
products are not searched).
Oracle: every tree's cost as a z3 term from the definitional step costs.
Decision: on every path of optimize_optimal, z3 proves
    cost(returned) <= cost(T)  for every competitor tree T.
"""

import sys
import warnings

import z3

from vlib import costs, skel, symx
from vlib.runner import main
from vlib.symx import term

PROPERTY = "C09"
STUBS = []
ASSUMPTIONS = [
    "index sizes are integers in [1, D] (D in bounds); cost_cap is an integer in [1, 64]",
    "objective strings: flops, size, write, max, combo (factor 64), combo-2, limit (factor 64), limit-2",
    "dedicated items: an unrelated request (solver-chosen objective string, incl. other factors) is answered by the same process just before the checked one",
]
OUTSIDE = ["n > 4 (quick) / n > 5 (thorough)", "sizes above D", "disconnected inputs (optimize_remaining_by_size; well-formedness only, C05)", "cotengrust accelerated variant"]

OBJECTIVES = ["flops", "size", "write", "max", "combo", "combo-2", "limit", "limit-2"]
# an unrelated request answered by the same process just before (parsers / registries / lru caches are process-wide)
PREVIOUS_QUICK = [None, "combo-2", "limit-16", "combo", "size"]
PREVIOUS = [None, "combo-2", "limit-2", "combo-256", "limit-16", "combo", "limit", "flops", "size"]


def bounds(tier):
    if tier == "quick":
        return dict(D=3, n3="all admissible skeletons rank<=2", n4="5 fixed admissible networks, one size symbolic in [1,16] at a time (others 2/3), one rotating objective per (network,label)", objectives=OBJECTIVES, search_outer=[False, True])
    return dict(D=4, n3="all admissible skeletons rank<=3", n4="all admissible skeletons rank<=2 (<=7 positions) + fixed", n5="3 fixed networks, D=2", objectives=OBJECTIVES)


def admissible(inputs, output):
    n = len(inputs)
    if not skel.is_connected(inputs):
        return False
    if any(len(t) == 0 for t in inputs):
        return False
    if any(len(set(t)) != len(t) for t in inputs):
        return False
    if len({frozenset(t) for t in inputs}) != n:
        return False
    for c in skel.all_labels(inputs):
        cnt = sum(c in t for t in inputs)
        if cnt == 1 and c not in output:
            return False
        if cnt == n:
            return False
    return True


FIXED4 = [
    # a hyper index (on three tensors) that appears LATE in the order of first appearance on one side of a join and
    # EARLY on the other (the finder keeps legs sorted by that order)
    (("ya", "ah", "hb", "hc"), "ybc"),
    (("hb", "hc", "ya", "ah"), "ybc"),
    (("ab", "bc", "cd", "da"), ""),
    (("ab", "bc", "cd", "dae"), "e"),
    (("abe", "bc", "cde", "da"), ""),  # hyper index e on two tensors + ... (e appears twice -> ordinary)
    (("ab", "bc", "cd", "de"), "ae"),
    (("abc", "cd", "de", "eab"), ""),
    (("ax", "bx", "cx", "abc"), ""),
    (("ab", "bc", "ca", "ad"), "d"),
]
FIXED5 = [
    (("xy", "ya", "ah", "hb", "hc"), "xbc"),
    (("ab", "bc", "cd", "de", "ea"), ""),
    (("ab", "bc", "cd", "de", "ef"), "af"),
    (("ab", "ac", "ad", "ae", "bcde"), ""),
]


def items(tier, seed):
    """mode 'all': every size symbolic in [1, D] (nonlinear);  mode 'one': one
    label symbolic in [1, 16], the others concrete from two patterns (linear
    arithmetic, so it scales to larger n and a larger range)."""
    its = []
    if tier == "quick":
        sk3 = [s for s in skel.skeletons(3, 2, 4, 1, outputs="unordered") if admissible(*s)]
        sk4 = [s for s in FIXED4 if admissible(*s)]
        for s in sk3:
            for obj in OBJECTIVES:
                for outer in (False, True):
                    its.append({"inputs": list(s[0]), "output": s[1], "obj": obj, "outer": outer, "D": 3, "mode": "all", "tier": tier})
        for si, s in enumerate(sk4[:6]):
            labels = skel.all_labels(s[0])
            for li, lab in enumerate(labels):
                # quick: one (rotating) objective per (network, label), both outer modes
                obj = OBJECTIVES[(si * 3 + li) % len(OBJECTIVES)]
                for outer in (False, True):
                    its.append({"inputs": list(s[0]), "output": s[1], "obj": obj, "outer": outer, "D": 16, "mode": "one", "label": lab, "pattern": (li + si) % 2, "tier": tier})
        for si, s in enumerate(sk4[2:4]):
            labels = skel.all_labels(s[0])
            for oi, obj in enumerate(("combo", "limit", "combo-2", "limit-2")):
                its.append({"inputs": list(s[0]), "output": s[1], "obj": obj, "outer": bool((si + oi) % 2), "D": 16, "mode": "one", "label": labels[(si + oi) % len(labels)], "pattern": oi % 2, "tier": tier, "previous": True})
    else:
        sk3 = [s for s in skel.skeletons(3, 3, 4, 2, max_positions=8, outputs="unordered") if admissible(*s)]
        sk4 = [s for s in skel.skeletons(4, 2, 4, 1, max_positions=7, outputs="unordered") if admissible(*s)] + [s for s in FIXED4 if admissible(*s)]
        for s in sk3:
            for obj in OBJECTIVES:
                for outer in (False, True):
                    its.append({"inputs": list(s[0]), "output": s[1], "obj": obj, "outer": outer, "D": 4, "mode": "all", "tier": tier})
        for s in sk4 + FIXED5:
            labels = skel.all_labels(s[0])
            for obj in OBJECTIVES:
                for outer in (False, True):
                    for lab in labels:
                        for pat in (0, 1):
                            its.append({"inputs": list(s[0]), "output": s[1], "obj": obj, "outer": outer, "D": 32, "mode": "one", "label": lab, "pattern": pat, "tier": tier})
        for si, s in enumerate([x for x in FIXED4 if admissible(*x)]):
            labels = skel.all_labels(s[0])
            for obj in OBJECTIVES:
                for outer in (False, True):
                    for lab in labels[:2]:
                        its.append({"inputs": list(s[0]), "output": s[1], "obj": obj, "outer": outer, "D": 16, "mode": "one", "label": lab, "pattern": si % 2, "tier": tier, "previous": True})
        for s in FIXED4[:4]:
            for obj in ("flops", "size", "write", "max"):
                for outer in (False, True):
                    its.append({"inputs": list(s[0]), "output": s[1], "obj": obj, "outer": outer, "D": 3, "mode": "all", "tier": tier})
    return its


def tree_cost(inputs, output, size, ssa, obj):
    """objective value of a tree as a z3 term / int; also whether it is outer-product free."""
    n = len(inputs)
    steps = costs.steps_from_ssa(ssa, n)
    c = costs.tree_costs(inputs, output, size, steps)
    opfree = True
    for (p, l, r) in steps:
        ll = set(costs.legs_of(l, inputs, output)) if len(l) < n else set()
        rl = set(costs.legs_of(r, inputs, output))
        if not (ll & rl):
            opfree = False
    per = c["per_step"]
    if obj == "flops":
        v = c["flops"]
    elif obj == "size":
        v = c["size"]
    elif obj == "write":
        v = c["write"]
    elif obj == "max":
        v = None
        for (_, f, _, _, _) in per:
            v = f if v is None else costs.zmax(v, f)
    else:
        kind, _, k = obj.partition("-")
        k = int(k) if k else 64
        v = 0
        for (_, f, s, _, _) in per:
            fs = costs.zterm(f) if not isinstance(f, int) else f
            ss = costs.zterm(s) if not isinstance(s, int) else s
            if kind == "combo":
                v = v + (fs + k * ss)
            else:
                v = v + costs.zmax(fs, k * ss)
    return v, opfree


def run_item(item, rec):
    warnings.simplefilter("ignore")
    from cotengra.pathfinders.path_basic import optimize_optimal

    inputs, output, obj, outer, D = tuple(item["inputs"]), item["output"], item["obj"], item["outer"], item["D"]
    n = len(inputs)
    labels = skel.all_labels(inputs)
    trees = skel.all_trees(n)
    case = dict(inputs=list(inputs), output=output, obj=obj, outer=outer, D=D, mode=item["mode"], label=item.get("label"), pattern=item.get("pattern"))

    def harness(ctx):
        prev = None
        if item.get("previous"):
            prevs = PREVIOUS if item["tier"] == "thorough" else PREVIOUS_QUICK
            prev = prevs[symx.choose("previous_request", len(prevs))]
            if prev is not None:
                optimize_optimal(("ab", "bc", "ca"), "", {"a": 2, "b": 3, "c": 4}, minimize=prev)
        if item["mode"] == "all":
            size = {c: symx.sym_int("d_" + c, 1, D) for c in labels}
        else:
            size = {c: (symx.sym_int("d_" + c, 1, D) if c == item["label"] else (2 + (k + item["pattern"]) % 2)) for k, c in enumerate(labels)}
        cap = symx.sym_int("cap", 1, 64)

        def viol0(m):
            sz = {c: int(symx.eval_model(m, size[c])) for c in labels}
            return dict(case=case, size=sz, cap=symx.eval_model(m, cap), previous=prev, signature=["C09", list(inputs), output, obj, outer, prev])

        with rec.guarded(ctx, f"optimal[{obj}] returns a path", viol0):
            ssa = optimize_optimal(inputs, output, size, minimize=obj, cost_cap=cap, search_outer=outer, use_ssa=True)
        ssa = [tuple(int(x) for x in p) for p in ssa]
        ok = skel_valid(ssa, n)
        if not ok:
            rec.refute(ctx, True, "returned path is a complete binary tree", lambda m: dict(case=case, size={c: symx.eval_model(m, size[c]) for c in labels},
                                                                                             cap=symx.eval_model(m, cap), signature=["C09", "invalid", str(case)]))
            return
        got, got_free = tree_cost(inputs, output, size, ssa, obj)
        bads = []
        if not outer and not got_free:
            # allowed (property only bounds the cost) but then it must still be <= every op-free tree
            pass
        ncomp = 0
        for t in trees:
            v, free = tree_cost(inputs, output, size, t, obj)
            if outer or free:
                ncomp += 1
                bads.append(term(got) > term(v))
        if ncomp == 0:
            return

        def viol(m):
            sz = {c: symx.eval_model(m, size[c]) for c in labels}
            sz = {c: int(sz[c]) for c in sz}
            return dict(case=case, size=sz, cap=symx.eval_model(m, cap), returned=[list(p) for p in ssa], previous=prev, signature=["C09", list(inputs), output, obj, outer, prev])

        rec.refute(ctx, z3.Or(bads), f"optimal[{obj}] <= every competitor tree", viol)
        return ssa

    out = symx.explore(harness, max_paths=20000, deadline_s=(120 if item["tier"] == "quick" else 600), timeout_ms=4000)
    rec.add_explore(out)
    rec.sample(dict(case=case, competitors=len(trees), distinct_returned_trees=len({str(r) for r in out.results if r}), sizes=f"symbolic in [1,{D}]", cost_cap="symbolic in [1,64]"))
    # engine validation: concrete run + brute force
    size = {c: 2 + (i % 2) for i, c in enumerate(labels)}
    ok, _ = brute(inputs, output, size, obj, outer, 2)
    rec.validated += int(ok)


def skel_valid(ssa, n):
    ids = set(range(n))
    nxt = n
    for p in ssa:
        if len(p) != 2 or p[0] == p[1] or p[0] not in ids or p[1] not in ids:
            return False
        ids -= set(p)
        ids.add(nxt)
        nxt += 1
    return len(ids) == 1


def eval_int(v):
    if isinstance(v, int):
        return v
    return z3.simplify(v).as_long()


def brute(inputs, output, size, obj, outer, cap):
    from cotengra.pathfinders.path_basic import optimize_optimal

    n = len(inputs)
    ssa = [tuple(p) for p in optimize_optimal(inputs, output, size, minimize=obj, cost_cap=cap, search_outer=outer, use_ssa=True)]
    if not skel_valid(ssa, n):
        return False, f"returned path {ssa} is not a complete binary tree"
    got, _ = tree_cost(inputs, output, size, ssa, obj)
    got = eval_int(got)
    best = None
    for t in skel.all_trees(n):
        v, free = tree_cost(inputs, output, size, t, obj)
        if outer or free:
            v = eval_int(v)
            if best is None or v < best[0]:
                best = (v, t)
    if best is not None and got > best[0]:
        return False, f"optimal[{obj}, search_outer={outer}, cost_cap={cap}] returned {ssa} with cost {got}; tree {list(best[1])} costs {best[0]} (sizes {size})"
    return True, "optimal"


def replay(v):
    warnings.simplefilter("ignore")
    case = v["case"]
    size = {k: int(x) for k, x in v["size"].items()}
    if v.get("previous"):
        from cotengra.pathfinders.path_basic import optimize_optimal

        optimize_optimal(("ab", "bc", "ca"), "", {"a": 2, "b": 3, "c": 4}, minimize=v["previous"])
    ok, detail = brute(tuple(case["inputs"]), case["output"], size, case["obj"], case["outer"], int(v["cap"]))
    if not ok and v.get("previous"):
        detail = f"after an unrelated optimal request with minimize={v['previous']!r} in the same process: " + detail
    if ok and not v.get("previous"):
        # the symbolic run shared its process with earlier work items: if the answer depends on what the process
        # answered before, the counterexample only reproduces after such a request
        from cotengra.pathfinders.path_basic import optimize_optimal

        for prev in PREVIOUS[1:]:
            optimize_optimal(("ab", "bc", "ca"), "", {"a": 2, "b": 3, "c": 4}, minimize=prev)
            ok2, detail2 = brute(tuple(case["inputs"]), case["output"], size, case["obj"], case["outer"], int(v["cap"]))
            if not ok2:
                return True, f"after an unrelated optimal request with minimize={prev!r} in the same process: " + detail2
    return (not ok), detail


if __name__ == "__main__":
    sys.exit(main("checks.c09"))
