"""C01 -- contracting with any tree gives the einsum value, axes in the
declared order.

Symbolic: every array entry (z3 Real) and the traversal-order keys of a
callable ``order`` (fresh z3 Int per node: every admissible order is a path).
Enumerated (exhaustively, inside the bound): network skeletons, all binary
trees, size patterns, option combinations.
Oracle: dense einsum polynomial built by vlib.symarr.dense_einsum.
Decision: for each obligation z3 decides `exists entries: out != ref` over
the reals; unsat = holds for all real arrays of that shape.
"""

import itertools
import sys
import warnings

import numpy as np
import z3

from vlib import skel, symarr, symx
from vlib.runner import main

PROPERTY = "C01"
PRIORITIES = [None, "flops", "size", "root", "leaves"]
IMPLS = ["cotengra", "autoray"]

STUBS = [
    "autoray.register_backend(z3.ArithRef, 'numpy') -- numpy returns bare z3 terms from full reductions of object arrays",
]
ASSUMPTIONS = [
    "arithmetic over the reals (floating-point rounding is outside the claim)",
    "numpy object-dtype arrays follow the same transpose/reshape/matmul/einsum/tensordot code path as float arrays",
    "index sizes are realised to concrete values from {1,2,3} (array shapes must be concrete)",
]
OUTSIDE = [
    "networks beyond the skeleton bound (see bounds)",
    "float rounding, non-numpy backends, cuquantum, autojit",
]


def bounds(tier):
    if tier == "quick":
        return dict(tensors="2..3", max_rank=2, max_labels=4, max_out_rank=2, trees="all (2N-3)!!",
                    sizes="all-2, alternating 2/3, each single label = 1",
                    options="implementation x prefer_einsum x order{None, symbolic callable} x sort priority (rotating subset)")
    return dict(tensors="2..4", max_rank="N=2: 3; N=3: 2 (all) and 3 (every 40th skeleton with <=7 positions); N=4: 2 (every 20th)", max_labels=4, max_out_rank=2,
                trees="all (2N-3)!!", sizes="all-2, alternating 2/3, 3/2, each single label = 1, all-1",
                options="implementation x prefer_einsum x order{None,'dfs',symbolic callable} x all 5 sort priorities")


def size_patterns(labels, tier):
    pats = []
    pats.append({c: 2 for c in labels})
    if len(labels) >= 1:
        pats.append({c: 2 + (i % 2) for i, c in enumerate(labels)})
    for c in labels:
        p = {x: 2 + (i % 2) for i, x in enumerate(labels)}
        p[c] = 1
        pats.append(p)
    if tier == "thorough":
        pats.append({c: 3 - (i % 2) for i, c in enumerate(labels)})
        pats.append({c: 1 for c in labels})
    # dedupe
    seen = []
    for p in pats:
        if p not in seen:
            seen.append(p)
    return seen


def items(tier, seed):
    its = []
    if tier == "quick":
        sk = skel.skeletons(2, 2, 4, 2) + skel.skeletons(3, 2, 4, 2)
        chunk = 12
    else:
        sk = (
            skel.skeletons(2, 3, 4, 2)
            + skel.skeletons(3, 2, 4, 2)
            + [s_ for s_ in skel.skeletons(3, 3, 4, 2, max_positions=7) if max(map(len, s_[0])) == 3][::40]
            + skel.skeletons(4, 2, 4, 2, max_positions=7)[::20]
        )
        chunk = 12
    for i in range(0, len(sk), chunk):
        its.append({"skeletons": [[list(a), b] for a, b in sk[i : i + chunk]], "tier": tier, "k": i})
    return its


def option_sets(tier, salt):
    opts = []
    if tier == "quick":
        orders = [None, "sym"]
        for impl, pe, order in itertools.product(IMPLS, [False, True], orders):
            prio = PRIORITIES[(salt + len(opts)) % len(PRIORITIES)]
            opts.append((impl, pe, order, prio))
    else:
        for impl, pe, order, prio in itertools.product(IMPLS, [False, True], [None, "dfs", "sym"], PRIORITIES):
            opts.append((impl, pe, order, prio))
    return opts


class SymOrder:
    """order=callable whose value for each node is a fresh solver variable."""

    def __init__(self):
        self.keys = {}

    def __call__(self, node):
        try:
            return self.keys[node]
        except KeyError:
            k = self.keys[node] = symx.sym_int("ord_" + "_".join(map(str, sorted(node))))
            return k


def build_and_contract(inputs, output, size, ssa, impl, pe, order, prio, arrays):
    from cotengra.core import ContractionTree

    tree = ContractionTree.from_path(inputs, output, size, ssa_path=ssa)
    if prio is not None:
        tree.sort_contraction_indices(priority=prio)
    return tree.contract(arrays, order=order, prefer_einsum=pe, implementation=impl)


def run_item(item, rec):
    warnings.simplefilter("ignore")
    tier = item["tier"]
    for inputs, output in item["skeletons"]:
        inputs = tuple(inputs)
        n = len(inputs)
        labels = skel.all_labels(inputs)
        trees = skel.all_trees(n)
        for si, size in enumerate(size_patterns(labels, tier)):
            shapes_ok = all(size[c] >= 1 for c in labels)
            assert shapes_ok
            arrays = symarr.sym_arrays(inputs, size)
            ref = symarr.dense_einsum(inputs, output, size, arrays)
            want_shape = tuple(size[c] for c in output)
            for ti, ssa in enumerate(trees):
                for oi, (impl, pe, order, prio) in enumerate(option_sets(tier, si + ti)):
                    case = dict(inputs=list(inputs), output=output, size=size, ssa=[list(p) for p in ssa],
                                impl=impl, prefer_einsum=pe, order=order, priority=prio)

                    def harness(ctx, case=case, order=order):
                        so = SymOrder() if order == "sym" else order
                        out = None

                        def viol(m, so=so):
                            d = dict(case=case, got_shape=(list(out.shape) if out is not None else None), want_shape=list(want_shape))
                            d["arrays"] = [a.tolist() for a in symarr.model_arrays(m, arrays)]
                            if isinstance(so, SymOrder):
                                d["order_keys"] = [[sorted(nd), symx.eval_model(m, k)] for nd, k in so.keys.items()]
                            d["signature"] = ["C01", list(inputs), output, impl, pe, str(order), str(prio)]
                            return d

                        with rec.guarded(ctx, "value==einsum", viol):
                            out = build_and_contract(inputs, output, size, ssa, impl, pe, so, prio, arrays)
                        out = symarr.as_obj_array(out)
                        if out.shape != want_shape:
                            bad = True
                        else:
                            bad = symarr.diff_formula(out, ref)
                        rec.refute(ctx, bad, "value==einsum", viol)
                        if isinstance(so, SymOrder):
                            return len(so.keys)
                        return 0

                    if order == "sym":
                        out = symx.explore(harness, max_paths=200)
                    else:
                        out = symx.explore(harness, max_paths=4)
                    rec.add_explore(out)
                # second pass: ONE tree object serves every option set in turn (execution options
                # must not interfere with each other through the tree's caches)
                if n >= 2:
                    opts = option_sets(tier, si + ti + 1)
                    rot = (si + ti) % len(opts)
                    opts = opts[rot:] + opts[:rot]

                    def shared(ctx, opts=opts, ssa=ssa):
                        from cotengra.core import ContractionTree

                        tree = ContractionTree.from_path(inputs, output, size, ssa_path=ssa)
                        done = []
                        for (impl, pe, order, prio) in opts:
                            if prio is not None:
                                tree.sort_contraction_indices(priority=prio)
                            so = SymOrder() if order == "sym" else order
                            done.append([impl, pe, str(order), prio])
                            seq = [list(x) for x in done]

                            def viol(m, seq=seq):
                                return dict(case=dict(inputs=list(inputs), output=output, size=size, ssa=[list(p) for p in ssa], shared_tree_sequence=seq),
                                            arrays=[a.tolist() for a in symarr.model_arrays(m, arrays)], signature=["C01-shared", list(inputs), output, str(seq[-2:])])

                            with rec.guarded(ctx, "value==einsum (same tree object, successive option sets)", viol):
                                out = symarr.as_obj_array(tree.contract(arrays, order=so, prefer_einsum=pe, implementation=impl))
                            bad = True if out.shape != want_shape else symarr.diff_formula(out, ref)

                            rec.refute(ctx, bad, "value==einsum (same tree object, successive option sets)", viol, reach_probe=False)
                            if isinstance(so, SymOrder):
                                # keep the order keys concrete for the rest of the sequence
                                pass

                    rec.add_explore(symx.explore(shared, max_paths=60))
            rec.sample(dict(inputs=list(inputs), output=output, size=size, trees=len(trees), entries="z3 Reals"))
        # engine validation: one concrete run per skeleton against numpy float reference
        size = size_patterns(labels, tier)[1 if len(labels) else 0]
        conc = symarr.generic_arrays(inputs, size, seed=1)
        got = build_and_contract(inputs, output, size, trees[-1], "cotengra", False, None, None, conc)
        want = symarr.np_reference(inputs, output, size, conc)
        # and the symbolic result evaluated at the same point
        arrays = symarr.sym_arrays(inputs, size)
        sym = symarr.as_obj_array(build_and_contract(inputs, output, size, trees[-1], "cotengra", False, None, None, arrays))
        subs = []
        for a, c in zip(arrays, conc):
            for idx in np.ndindex(*a.shape):
                subs.append((a[idx], z3.RealVal(repr(float(c[idx])))))
        ok = np.shape(got) == want.shape and np.allclose(got, want, rtol=1e-9, atol=1e-12)
        if ok and sym.shape == want.shape:
            for idx in np.ndindex(*want.shape):
                v = z3.simplify(z3.substitute(symarr.lift_real(sym[idx]), *subs))
                fv = v.numerator_as_long() / v.denominator_as_long()
                if abs(fv - want[idx]) > 1e-9 * max(1, abs(want[idx])):
                    ok = False
        if ok:
            rec.validated += 1
        elif np.shape(got) == want.shape and np.allclose(got, want, rtol=1e-9, atol=1e-12):
            rec.validation_failures.append(dict(inputs=list(inputs), output=output, why="symbolic result differs from concrete run"))


def replay(v):
    """Re-run the failing case on the real code with numpy float arrays."""
    warnings.simplefilter("ignore")
    case = v["case"]
    inputs, output, size = tuple(case["inputs"]), case["output"], case["size"]
    ssa = [tuple(p) for p in case["ssa"]]
    if "shared_tree_sequence" in case:
        from cotengra.core import ContractionTree

        for arrays in ([np.array(a, dtype=float).reshape(tuple(size[c] for c in t)) for a, t in zip(v["arrays"], inputs)], symarr.generic_arrays(inputs, size, seed=7)):
            want = symarr.np_reference(inputs, output, size, arrays)
            tree = ContractionTree.from_path(inputs, output, size, ssa_path=ssa)
            for impl, pe, order, prio in case["shared_tree_sequence"]:
                if prio is not None:
                    tree.sort_contraction_indices(priority=prio)
                order = None if order in ("None", "sym") else order
                try:
                    got = np.asarray(tree.contract(arrays, order=order, prefer_einsum=pe, implementation=impl))
                except Exception as e:  # noqa
                    return True, f"same tree, option sequence {case['shared_tree_sequence']}: contract raised {e!r}"
                if got.shape != want.shape or not np.allclose(got, want, rtol=1e-9, atol=1e-12):
                    return True, f"same tree, option sequence {case['shared_tree_sequence']}: wrong result at step {[impl, pe, order, prio]}"
        return False, "sequence agrees with the reference"
    order = case["order"]
    if order == "sym":
        keys = {frozenset(nd): k for nd, k in v.get("order_keys", [])}
        order = lambda node: keys.get(node, 0)  # noqa
    tries = [[np.array(a, dtype=float).reshape(tuple(size[c] for c in t)) for a, t in zip(v["arrays"], inputs)]]
    tries.append(symarr.generic_arrays(inputs, size, seed=7))
    for arrays in tries:
        want = symarr.np_reference(inputs, output, size, arrays)
        try:
            got = build_and_contract(inputs, output, size, ssa, case["impl"], case["prefer_einsum"], order, case["priority"], arrays)
        except Exception as e:  # noqa
            return True, f"real code raised {e!r}"
        got = np.asarray(got)
        if got.shape != want.shape:
            return True, f"shape {got.shape} != declared {want.shape}"
        if not np.allclose(got, want, rtol=1e-9, atol=1e-12):
            return True, f"value mismatch max|d|={np.max(np.abs(got - want)):.3g}"
    return False, "real code agrees with the reference on the model arrays and on generic arrays"


if __name__ == "__main__":
    sys.exit(main("checks.c01"))
