"""C13 -- in-memory caching is invisible.

Symbolic: every array entry of every call (fresh z3 Reals per call), the call
sequence over a pool of near-identical requests and the cache flag of every
call (solver-chosen: every sequence of length <= K is a path).
`cotengra.interface.hash` is replaced by an injective structural key (with
CPython's int-hash quirk hash(-1) == hash(-2) kept), so what is checked is
WHICH FIELDS FEED THE KEY, not 64-bit hash arithmetic.
Assertion per call: value == dense einsum polynomial of THIS call's arrays
and request (so a cached answer of another request, a captured array or a
stale option shows up as a polynomial / shape difference); returned paths are
valid for the request; explicit paths are returned as given.
"""

import importlib
import sys
import warnings

import numpy as np
import z3

from vlib import skel, symarr, symx
from vlib.runner import main

PROPERTY = "C13"
STUBS = [
    "cotengra.interface.hash -> injective structural key (tuple itself; ints mapped through CPython's int hash, i.e. -1 -> -2)",
    "autoray.register_backend(z3.ArithRef, 'numpy')",
]
ASSUMPTIONS = ["tuple hashing is injective on the pool (true 64-bit collisions are outside)", "requests with strip_exponent=True are evaluated on concrete float arrays (log10/abs of symbolic entries is not encoded here; C19 covers it)"]
OUTSIDE = ["sequences longer than K", "constants= folding through autoray.lazy", "autojit", "non-numpy backends"]


def bounds(tier):
    return dict(K=2 if tier == "quick" else 3, pool="19 requests differing from a base in one component (output order, one size, relabelling, optimize kind, option flags, single-operand forms) + 7 requests issued with an explicit size_dict= (shared dict, unused entries, reversed population order, relabelling); for those the cached path must equal the uncached path",
                entry_points=["einsum", "array_contract", "array_contract_path", "array_contract_expression", "einsum_expression", "array_contract_tree"], cache_flag="solver-chosen per call")


BASE = dict(inputs=("ab", "bc", "cd"), output="ad", size={"a": 2, "b": 3, "c": 2, "d": 3}, optimize="auto", kw={})


def pool():
    P = []

    def var(**ch):
        r = dict(BASE)
        r.update(ch)
        return r

    P.append(var())
    P.append(var(output="da"))
    P.append(var(size={"a": 2, "b": 2, "c": 2, "d": 3}))
    P.append(var(size={"a": 3, "b": 3, "c": 2, "d": 2}))
    P.append(var(inputs=("xy", "yz", "zw"), output="xw", size={"x": 2, "y": 3, "z": 2, "w": 3}))  # canonically the base
    P.append(var(inputs=("ab", "bc", "dc"), output="ad"))  # transposed last operand
    P.append(var(inputs=("ab", "bc", "cd"), output="a"))
    P.append(var(optimize="greedy"))
    P.append(var(optimize="optimal"))
    P.append(var(optimize=[(0, 1), (0, 1)]))
    P.append(var(optimize=((1, 2), (0, 1))))
    P.append(var(optimize=("c", "b")))  # edge path
    P.append(var(kw={"prefer_einsum": True}))
    P.append(var(kw={"implementation": "autoray"}))
    P.append(var(kw={"sort_contraction_indices": True}))
    P.append(var(kw={"strip_exponent": True}))
    P.append(dict(inputs=("ab",), output="ba", size={"a": 2, "b": 3}, optimize="auto", kw={}))
    P.append(dict(inputs=("ab",), output="ab", size={"a": 2, "b": 3}, optimize="auto", kw={}))
    P.append(dict(inputs=("aab",), output="b", size={"a": 2, "b": 3}, optimize="auto", kw={}))
    return P


ENTRY = ["einsum", "array_contract", "array_contract_path", "array_contract_expression", "einsum_expression", "array_contract_tree", "mixed"]
MIXED = ["einsum", "array_contract", "array_contract_expression", "einsum_expression", "array_contract_path"]


def items(tier, seed):
    n = len(pool())
    its = []
    for ep in ENTRY:
        for first in range(n):
            its.append({"entry": ep, "first": first, "tier": tier})
    for first in range(len(sized_pool())):
        for opt in ("optimal", "greedy"):
            its.append({"entry": "sized", "first": first, "optimize": opt, "tier": tier})
    its.append({"entry": "objopt", "tier": tier})
    its.append({"entry": "viaopt", "tier": tier})
    its.append({"entry": "rawlabels", "tier": tier})
    return its


def sized_pool():
    """requests issued with an explicit size_dict= (possibly shared between
    sub-networks, with unused entries, or populated in another order)"""
    D = {"p": 2, "q": 3, "r": 2, "s": 3, "t": 2}
    D2 = dict(reversed(list(D.items())))
    E = {"p": 3, "q": 2, "r": 3, "s": 2, "t": 3}
    P = [
        dict(inputs=(("p", "q"), ("q", "r"), ("r", "s")), output=("p", "s"), size_dict=D),
        dict(inputs=(("q", "r"), ("r", "s"), ("s", "t")), output=("q", "t"), size_dict=D),  # same structure, other sizes, same dict
        dict(inputs=(("p", "q"), ("q", "r"), ("r", "s")), output=("p", "s"), size_dict=D2),  # same contraction, dict populated in reverse
        dict(inputs=(("q", "r"), ("r", "s"), ("s", "t")), output=("q", "t"), size_dict=D2),
        dict(inputs=(("p", "q"), ("q", "r"), ("r", "s")), output=("p", "s"), size_dict=E),  # same labels, other sizes
        dict(inputs=(("p", "q"), ("q", "r"), ("r", "s")), output=("p", "s"), size_dict={k: D[k] for k in "pqrs"}),  # no unused entry
        dict(inputs=(("s", "r"), ("r", "q"), ("q", "p")), output=("s", "p"), size_dict=D),  # relabelled against the same dict
    ]
    return P


class SwitchableOptimizer:
    """a user optimizer object (public: optimize=callable) whose behaviour depends on a mutable
    attribute; hashable by identity only"""

    def __init__(self, which=0):
        self.which = which

    def __call__(self, inputs, output, size_dict, **kw):
        n = len(inputs)
        if self.which == 0:
            return tuple((0, 1) for _ in range(n - 1))
        return tuple((n - 2 - k, n - 1 - k) for k in range(n - 1))


def run_objopt(item, rec):
    """optimize= given as an OBJECT: the same live object mutated between calls, and fresh objects"""
    import cotengra as ctg

    I = importlib.import_module("cotengra.interface")
    saved = I.__dict__.get("hash", None)
    I.hash = structural
    inputs = (("a", "b"), ("b", "c"), ("c", "d"), ("d", "e"))
    output = ("a", "e")
    size = {"a": 2, "b": 3, "c": 2, "d": 3, "e": 2}
    sinputs = tuple("".join(t) for t in inputs)
    try:

        def harness(ctx):
            clear_all()
            live = SwitchableOptimizer(0)
            seq = []
            for k in range(3):
                fresh = bool(symx.choose(f"fresh{k}", 2))
                which = symx.choose(f"which{k}", 2)
                cache = bool(symx.choose(f"cache{k}", 2))
                ep = ["path", "expr", "einsum"][symx.choose(f"ep{k}", 3)]
                seq.append([int(fresh), which, int(cache), ep])
                if fresh:
                    opt = SwitchableOptimizer(which)
                else:
                    live.which = which  # mutated in place between calls
                    opt = live
                want = opt(inputs, output, size)
                case = dict(entry="objopt", seq=[list(x) for x in seq])
                if ep == "path":
                    got = ctg.array_contract_path(inputs, output, size_dict=dict(size), optimize=opt, cache=cache)
                    bad = [tuple(p) for p in got] != [tuple(p) for p in want]
                    rec.refute(ctx, bad, f"call {k}: path is the one THIS optimizer object returns now", lambda m, case=case: dict(case=case, call=k, signature=["C13o", str(seq)]))
                else:
                    arrays = symarr.sym_arrays(sinputs, size, prefix=f"c{k}x")
                    if ep == "expr":
                        val = ctg.array_contract_expression(inputs, output, size_dict=dict(size), optimize=opt, cache=cache)(*arrays)
                    else:
                        val = ctg.einsum(",".join(sinputs) + "->" + "".join(output), *arrays, optimize=opt, cache_expression=cache)
                    bad = symarr.diff_formula(symarr.as_obj_array(val), symarr.dense_einsum(sinputs, "".join(output), size, arrays))
                    rec.refute(ctx, bad, f"call {k}: value with an optimizer object", lambda m, case=case: dict(case=case, call=k, signature=["C13o", str(seq), "value"]))

        out = symx.explore(harness, max_paths=30000, deadline_s=(60 if item["tier"] == "quick" else 600))
        rec.add_explore(out)
        rec.sample(dict(entry="optimize= optimizer OBJECT (live object mutated in place / fresh objects)", sequences=out.paths))
    finally:
        if saved is None:
            I.__dict__.pop("hash", None)
        else:
            I.hash = saved
        clear_all()
    rec.validated += 1


def scale2_in(x):
    return x * 2


def scale3_in(x):
    return x * 3


def ident_out(x):
    return x


def run_viaopt(item, rec):
    """the via=(convert_in, convert_out) option given as a tuple, as a fresh list, or as one live list edited in place
    (an unhashable option value must not be keyed by anything but its contents)"""
    import cotengra as ctg

    I = importlib.import_module("cotengra.interface")
    saved = I.__dict__.get("hash", None)
    I.hash = structural
    inputs = (("a", "b"), ("b", "c"), ("c", "d"))
    output = ("a", "d")
    size = {"a": 2, "b": 3, "c": 2, "d": 2}
    sinputs = tuple("".join(t) for t in inputs)
    fns = {2: scale2_in, 3: scale3_in}
    try:

        def harness(ctx):
            clear_all()
            live = [scale2_in, ident_out]
            seq = []
            for k in range(2 if item["tier"] == "quick" else 3):
                scale = (2, 3)[symx.choose(f"scale{k}", 2)]
                how = ("tuple", "fresh-list", "live-list")[symx.choose(f"how{k}", 3)]
                cache = bool(symx.choose(f"cache{k}", 2))
                ep = ("array_contract_expression", "einsum_expression")[symx.choose(f"ep{k}", 2)]
                seq.append([scale, how, int(cache), ep])
                if how == "tuple":
                    via = (fns[scale], ident_out)
                elif how == "fresh-list":
                    via = [fns[scale], ident_out]
                else:
                    live[0] = fns[scale]  # edited in place between calls
                    via = live
                arrays = symarr.sym_arrays(sinputs, size, prefix=f"v{k}x")
                case = dict(entry="viaopt", seq=[list(x) for x in seq])
                if ep == "array_contract_expression":
                    expr = ctg.array_contract_expression(inputs, output, size_dict=dict(size), via=via, cache=cache)
                else:
                    expr = ctg.einsum_expression(",".join(sinputs) + "->" + "".join(output), *[a.shape for a in arrays], via=via, cache=cache)
                del via
                val = expr(*arrays)
                want = symarr.dense_einsum(sinputs, "".join(output), size, [a * scale for a in arrays])
                bad = symarr.diff_formula(symarr.as_obj_array(val), want)
                rec.refute(ctx, bad, f"call {k}: value with via= conversion functions", lambda m, case=case: dict(case=case, call=k, signature=["C13v", str(seq)]))

        out = symx.explore(harness, max_paths=30000, deadline_s=(60 if item["tier"] == "quick" else 600))
        rec.add_explore(out)
        rec.sample(dict(entry="via= option as tuple / fresh list / live list edited in place", sequences=out.paths))
    finally:
        if saved is None:
            I.__dict__.pop("hash", None)
        else:
            I.hash = saved
        clear_all()
    rec.validated += 1


RAW = [
    # canonicalize=False: the caller's own labels reach the cache key
    dict(inputs=((-1, 1), (1, -2)), output=(-1, -2), size={-1: 2, 1: 3, -2: 3}),
    dict(inputs=((-1, 1), (1, -2)), output=(-2, -1), size={-1: 2, 1: 3, -2: 3}),  # hash(-1) == hash(-2) in CPython
    dict(inputs=(("ab", "c"), ("c", "d")), output=(), size={"ab": 2, "c": 3, "d": 2}),
    dict(inputs=(("a", "bc"), ("c", "d")), output=(), size={"a": 2, "bc": 3, "c": 3, "d": 2}),  # same concatenated spelling
    dict(inputs=((1, 12), (12, 3)), output=(1, 3), size={1: 2, 12: 3, 3: 2}),
    dict(inputs=((11, 2), (2, 3)), output=(11, 3), size={11: 2, 2: 3, 3: 2}),
]


def raw_reference(req, arrays):
    labs = []
    for t in req["inputs"]:
        for x in t:
            if x not in labs:
                labs.append(x)
    ch = {x: skel.LETTERS[i] for i, x in enumerate(labs)}
    sin = tuple("".join(ch[x] for x in t) for t in req["inputs"])
    return sin, "".join(ch[x] for x in req["output"]), {ch[x]: d for x, d in req["size"].items()}


def run_rawlabels(item, rec):
    import cotengra as ctg

    I = importlib.import_module("cotengra.interface")
    saved = I.__dict__.get("hash", None)
    I.hash = structural
    try:

        def harness(ctx):
            clear_all()
            seq = []
            for k in range(2 if item["tier"] == "quick" else 3):
                ri = symx.choose(f"req{k}", len(RAW))
                cache = bool(symx.choose(f"cache{k}", 2))
                ep = ("array_contract", "array_contract_expression")[symx.choose(f"ep{k}", 2)]
                seq.append([ri, int(cache), ep])
                req = RAW[ri]
                sin, sout, ssize = raw_reference(req, None)
                arrays = symarr.sym_arrays(sin, ssize, prefix=f"r{k}x")
                want = symarr.dense_einsum(sin, sout, ssize, arrays)
                case = dict(entry="rawlabels", seq=[list(x) for x in seq])
                if ep == "array_contract":
                    got = ctg.array_contract(arrays, req["inputs"], req["output"], canonicalize=False, cache_expression=cache)
                else:
                    got = ctg.array_contract_expression(req["inputs"], req["output"], size_dict=dict(req["size"]), canonicalize=False, cache=cache)(*arrays)
                got = symarr.as_obj_array(got)
                bad = True if got.shape != symarr.as_obj_array(want).shape else symarr.diff_formula(got, want)
                rec.refute(ctx, bad, f"call {k}: value with the caller's own labels (canonicalize=False)", lambda m, case=case: dict(case=case, call=k, signature=["C13r", str(seq)]))
                if bad is True:
                    return

        out = symx.explore(harness, max_paths=30000, deadline_s=(60 if item["tier"] == "quick" else 600))
        rec.add_explore(out)
        rec.sample(dict(entry="canonicalize=False with negative-int / multi-character / multi-digit labels", sequences=out.paths))
    finally:
        if saved is None:
            I.__dict__.pop("hash", None)
        else:
            I.hash = saved
        clear_all()
    rec.validated += 1


def run_sized(item, rec):
    import cotengra as ctg

    I = importlib.import_module("cotengra.interface")
    P = sized_pool()
    K = 2 if item["tier"] == "quick" else 3
    saved = I.__dict__.get("hash", None)
    I.hash = structural
    opt = item["optimize"]
    try:

        def harness(ctx):
            clear_all()
            seq = []
            for k in range(K):
                ri = item["first"] if k == 0 else symx.choose(f"req{k}", len(P))
                cache = bool(symx.choose(f"cache{k}", 2))
                which = ["path", "expr"][symx.choose(f"w{k}", 2)]
                seq.append([ri, cache, which])
                req = P[ri]
                n = len(req["inputs"])
                size = req["size_dict"]
                case = dict(entry="sized", optimize=opt, seq=[list(x) for x in seq])
                if which == "path":
                    got = ctg.array_contract_path(req["inputs"], req["output"], size_dict=dict(size), optimize=opt, cache=cache)
                    I._PATH_CACHE, keep = {}, I._PATH_CACHE
                    try:
                        want = ctg.array_contract_path(req["inputs"], req["output"], size_dict=dict(size), optimize=opt, cache=False)
                    finally:
                        I._PATH_CACHE = keep
                    bad = not (valid_path(got, n) and [tuple(p) for p in got] == [tuple(p) for p in want])
                    rec.refute(ctx, bad, f"call {k}: cached path == uncached path", lambda m, case=case, got=got, want=want: dict(case=case, call=k, got=[list(p) for p in got], want=[list(p) for p in want], signature=["C13s", opt, str(seq)]))
                else:
                    inputs = tuple("".join(t) for t in req["inputs"])
                    output = "".join(req["output"])
                    arrays = symarr.sym_arrays(inputs, size, prefix=f"c{k}x")
                    expr = ctg.array_contract_expression(req["inputs"], req["output"], size_dict=dict(size), optimize=opt, cache=cache)
                    val = symarr.as_obj_array(expr(*arrays))
                    bad = symarr.diff_formula(val, symarr.dense_einsum(inputs, output, size, arrays))
                    rec.refute(ctx, bad, f"call {k}: expression value", lambda m, case=case: dict(case=case, call=k, signature=["C13s", opt, str(seq), "value"]))

        out = symx.explore(harness, max_paths=20000, deadline_s=(60 if item["tier"] == "quick" else 600))
        rec.add_explore(out)
        rec.sample(dict(entry="array_contract_path / array_contract_expression with explicit size_dict=", first=item["first"], optimize=opt, K=K, sequences=out.paths))
    finally:
        if saved is None:
            I.__dict__.pop("hash", None)
        else:
            I.hash = saved
        clear_all()
    rec.validated += 1


def int_hash(n):
    return -2 if n == -1 else n


def structural(x):
    if isinstance(x, bool):
        return int(x)
    if isinstance(x, int):
        return ("i", int_hash(x))
    if isinstance(x, (tuple, list)) and not isinstance(x, str):
        if isinstance(x, list):
            raise TypeError("unhashable type: 'list'")
        return tuple(structural(v) for v in x)
    if isinstance(x, frozenset):
        return frozenset(structural(v) for v in x)
    if isinstance(x, dict):
        raise TypeError("unhashable type: 'dict'")
    hash(x)
    return x


def clear_all():
    I = importlib.import_module("cotengra.interface")
    U = importlib.import_module("cotengra.utils")
    C = importlib.import_module("cotengra.contract")
    I._PATH_CACHE.clear()
    I._CONTRACT_EXPR_CACHE.clear()
    U.parse_equation_ellipses.cache_clear()
    for f in (C._sanitize_equation, C._parse_einsum_single, C._parse_eq_to_batch_matmul, C._parse_tensordot_axes_to_matmul):
        f.cache_clear()


def shapes_of(req):
    return [tuple(req["size"][c] for c in t) for t in req["inputs"]]


def valid_path(path, n):
    cur = n
    for con in path:
        con = list(con)
        if len(set(con)) != len(con) or any(not (-cur <= c < cur) for c in con) or len(con) < 1:
            return False
        cur -= len(con) - 1
    return cur == 1 or n == 1


def do_call(ep, req, cache, arrays):
    import cotengra as ctg

    inputs, output, size = req["inputs"], req["output"], req["size"]
    eq = ",".join(inputs) + "->" + output
    shapes = shapes_of(req)
    kw = dict(req["kw"])
    opt = req["optimize"]
    if ep == "einsum":
        return "value", ctg.einsum(eq, *arrays, optimize=opt, cache_expression=cache, **kw)
    if ep == "array_contract":
        return "value", ctg.array_contract(arrays, [tuple(t) for t in inputs], tuple(output), optimize=opt, cache_expression=cache, **kw)
    if ep == "array_contract_path":
        return "path", ctg.array_contract_path([tuple(t) for t in inputs], tuple(output), shapes=shapes, optimize=opt, cache=cache)
    if ep == "array_contract_expression":
        expr = ctg.array_contract_expression([tuple(t) for t in inputs], tuple(output), shapes=shapes, optimize=opt, cache=cache, **kw)
        return "value", expr(*arrays)
    if ep == "einsum_expression":
        expr = ctg.einsum_expression(eq, *shapes, optimize=opt, cache=cache, **kw)
        return "value", expr(*arrays)
    if ep == "array_contract_tree":
        kw2 = {k: v for k, v in kw.items() if k == "sort_contraction_indices"}
        tree = ctg.array_contract_tree([tuple(t) for t in inputs], tuple(output), shapes=shapes, optimize=opt, **kw2)
        return "tree", tree
    raise ValueError(ep)


def run_item(item, rec):
    warnings.simplefilter("ignore")
    if item["entry"] == "sized":
        return run_sized(item, rec)
    if item["entry"] == "objopt":
        return run_objopt(item, rec)
    if item["entry"] == "viaopt":
        return run_viaopt(item, rec)
    if item["entry"] == "rawlabels":
        return run_rawlabels(item, rec)
    I = importlib.import_module("cotengra.interface")
    P = pool()
    ep, first, tier = item["entry"], item["first"], item["tier"]
    K = 2 if tier == "quick" else 3
    saved = I.__dict__.get("hash", None)
    I.hash = structural
    conc_rng = np.random.default_rng(5)
    try:

        def harness(ctx):
            clear_all()
            seq = []
            eps = []
            for k in range(K):
                ri = first if k == 0 else symx.choose(f"req{k}", len(P))
                cache = bool(symx.choose(f"cache{k}", 2))
                # a different entry point may have filled the caches before: solver-chosen warm-up
                req = P[ri]
                seq.append((ri, cache))
                inputs, output, size = req["inputs"], req["output"], req["size"]
                strip = bool(req["kw"].get("strip_exponent"))
                if strip:
                    arrays = [conc_rng.uniform(0.5, 1.5, size=s) for s in shapes_of(req)]
                else:
                    arrays = symarr.sym_arrays(inputs, size, prefix=f"c{k}x")
                epk = MIXED[symx.choose(f"ep{k}", len(MIXED))] if ep == "mixed" else ep
                eps.append(epk)
                case = dict(entry=ep, eps=list(eps), seq=[list(s) for s in seq])
                try:
                    kind, got = do_call(epk, req, cache, arrays)
                except (symx.PathAbort, symx.Unsupported, symx.Budget):
                    raise
                except Exception as e:  # noqa
                    # an error that also occurs without any cache is not a caching defect
                    try:
                        clear_all()
                        do_call(epk, req, False, arrays)
                        err_uncached = None
                    except Exception as e2:  # noqa
                        err_uncached = repr(e2)
                    if err_uncached is None:
                        rec.concrete_violation("call raised only with this cache history", dict(case=case, error=repr(e)[:200], signature=["C13", ep, str(seq), "raise"]))
                    else:
                        rec.notes["raises_also_uncached"] = rec.notes.get("raises_also_uncached", 0) + 1
                    return
                bad = judge(kind, got, req, arrays, strip, epk)

                def viol(m, case=case, arrays=arrays, strip=strip):
                    return dict(case=case, call=k, signature=["C13", ep, str(seq)])

                rec.refute(ctx, bad, f"call {k}: answer is the one for THIS request and THESE arrays", viol)

        out = symx.explore(harness, max_paths=20000, deadline_s=(60 if tier == "quick" else 600))
        rec.add_explore(out)
        rec.sample(dict(entry=ep, first_request=first, K=K, sequences=out.paths, arrays="fresh z3 Reals per call"))
    finally:
        if saved is None:
            I.__dict__.pop("hash", None)
        else:
            I.hash = saved
        clear_all()
    rec.validated += 1


def judge(kind, got, req, arrays, strip, ep):
    inputs, output, size = req["inputs"], req["output"], req["size"]
    n = len(inputs)
    if kind == "path":
        ok = valid_path(got, n)
        opt = req["optimize"]
        if ok and isinstance(opt, (list, tuple)) and not isinstance(opt[0], str):
            ok = [tuple(p) for p in got] == [tuple(p) for p in opt]
        return not ok
    if kind == "tree":
        tree = got
        ok = tree.N == n and tree.is_complete() and len(tree.output) == len(output)
        ok = ok and sorted(tree.size_dict.values()) == sorted(size.values())
        if not ok:
            return True
        if strip or n == 1:
            # a single-tensor 'tree' has no pairwise step to execute (array_contract handles
            # that case without a tree): structure only
            return False
        val = tree.contract(arrays)
        return symarr.diff_formula(symarr.as_obj_array(val), symarr.dense_einsum(inputs, output, size, arrays))
    if strip:
        if not (isinstance(got, tuple) and len(got) == 2):
            return True
        m, e = got
        want = symarr.np_reference(inputs, output, size, arrays)
        val = np.asarray(m, dtype=float) * 10.0 ** float(e)
        return not (val.shape == want.shape and np.allclose(val, want, rtol=1e-9))
    if isinstance(got, tuple):
        return True
    return symarr.diff_formula(symarr.as_obj_array(got), symarr.dense_einsum(inputs, output, size, arrays))


def replay(v):
    """re-run the sequence on the real code (real hash), float arrays"""
    warnings.simplefilter("ignore")
    case = v["case"]
    if case["entry"] == "rawlabels":
        import cotengra as ctg

        clear_all()
        rng = np.random.default_rng(3)
        for k, (ri, cache, ep) in enumerate(case["seq"]):
            req = RAW[ri]
            sin, sout, ssize = raw_reference(req, None)
            arrs = [rng.uniform(0.5, 1.5, size=[ssize[c] for c in t]) for t in sin]
            want = np.einsum(",".join(sin) + "->" + sout, *arrs)
            if ep == "array_contract":
                got = ctg.array_contract(arrs, req["inputs"], req["output"], canonicalize=False, cache_expression=bool(cache))
            else:
                got = ctg.array_contract_expression(req["inputs"], req["output"], size_dict=dict(req["size"]), canonicalize=False, cache=bool(cache))(*arrs)
            if np.shape(got) != np.shape(want) or not np.allclose(got, want):
                return True, (f"canonicalize=False, sequence {[[RAW[r]['inputs'], RAW[r]['output'], c, e] for r, c, e in case['seq']]}: call {k} received the cached answer of another contraction "
                              f"(shape {np.shape(got)}, expected {np.shape(want)})")
        return False, "every call got its own contraction"
    if case["entry"] == "viaopt":
        import cotengra as ctg

        inputs = (("a", "b"), ("b", "c"), ("c", "d"))
        output = ("a", "d")
        size = {"a": 2, "b": 3, "c": 2, "d": 2}
        fns = {2: scale2_in, 3: scale3_in}
        clear_all()
        live = [scale2_in, ident_out]
        rng = np.random.default_rng(5)
        for k, (scale, how, cache, ep) in enumerate(case["seq"]):
            if how == "tuple":
                via = (fns[scale], ident_out)
            elif how == "fresh-list":
                via = [fns[scale], ident_out]
            else:
                live[0] = fns[scale]
                via = live
            arrs = [rng.uniform(0.5, 1.5, size=[size[c] for c in t]) for t in inputs]
            if ep == "array_contract_expression":
                expr = ctg.array_contract_expression(inputs, output, size_dict=dict(size), via=via, cache=bool(cache))
            else:
                expr = ctg.einsum_expression("ab,bc,cd->ad", *[a.shape for a in arrs], via=via, cache=bool(cache))
            del via
            got = expr(*arrs)
            want = np.einsum("ab,bc,cd->ad", *[a * scale for a in arrs])
            if not np.allclose(got, want):
                return True, f"via= option, sequence {case['seq']}: call {k} (input conversion x{scale}, given as {how}) used the conversion functions of an earlier call (max deviation {np.max(np.abs(got - want)):.3g})"
        return False, "every call used its own conversion functions"
    if case["entry"] == "objopt":
        import cotengra as ctg

        inputs = (("a", "b"), ("b", "c"), ("c", "d"), ("d", "e"))
        output = ("a", "e")
        size = {"a": 2, "b": 3, "c": 2, "d": 3, "e": 2}
        clear_all()
        live = SwitchableOptimizer(0)
        for k, (fresh, which, cache, ep) in enumerate(case["seq"]):
            if fresh:
                opt = SwitchableOptimizer(which)
            else:
                live.which = which
                opt = live
            want = opt(inputs, output, size)
            if ep == "path":
                got = ctg.array_contract_path(inputs, output, size_dict=dict(size), optimize=opt, cache=bool(cache))
                if [tuple(p) for p in got] != [tuple(p) for p in want]:
                    return True, f"optimize=<optimizer object>, sequence {case['seq']}: call {k} returned {list(got)} but the object now produces {list(want)} (a cached answer of an earlier state of the object)"
            elif ep == "expr":
                ctg.array_contract_expression(inputs, output, size_dict=dict(size), optimize=opt, cache=bool(cache))
            else:
                arrs = [np.ones([size[c] for c in t]) for t in inputs]
                ctg.einsum("ab,bc,cd,de->ae", *arrs, optimize=opt, cache_expression=bool(cache))
        return False, "paths follow the object's current state"
    if case["entry"] == "sized":
        import cotengra as ctg

        P = sized_pool()
        clear_all()
        for k, (ri, cache, which) in enumerate(case["seq"]):
            req = P[ri]
            if which == "path":
                got = ctg.array_contract_path(req["inputs"], req["output"], size_dict=dict(req["size_dict"]), optimize=case["optimize"], cache=bool(cache))
                I = importlib.import_module("cotengra.interface")
                I._PATH_CACHE, keep = {}, I._PATH_CACHE
                try:
                    want = ctg.array_contract_path(req["inputs"], req["output"], size_dict=dict(req["size_dict"]), optimize=case["optimize"], cache=False)
                finally:
                    I._PATH_CACHE = keep
                if [tuple(p) for p in got] != [tuple(p) for p in want]:
                    return True, f"array_contract_path(size_dict=..., optimize={case['optimize']!r}) sequence {case['seq']}: call {k} returned {list(got)} with the cache, {list(want)} without (request {ri}: {req['inputs']} sizes {req['size_dict']})"
            else:
                ctg.array_contract_expression(req["inputs"], req["output"], size_dict=dict(req["size_dict"]), optimize=case["optimize"], cache=bool(cache))
        return False, "cached and uncached paths agree"
    P = pool()
    ep = case["entry"]
    clear_all()
    rng = np.random.default_rng(3)
    for k, (ri, cache) in enumerate(case["seq"]):
        ep = case.get("eps", [case["entry"]] * len(case["seq"]))[k]
        req = P[ri]
        arrays = [rng.uniform(0.5, 1.5, size=s) for s in shapes_of(req)]
        strip = bool(req["kw"].get("strip_exponent"))
        try:
            kind, got = do_call(ep, req, bool(cache), arrays)
        except Exception as e:  # noqa
            if k == len(case["seq"]) - 1:
                try:
                    clear_all()
                    do_call(ep, req, False, arrays)
                    return True, f"{ep} sequence {case['seq']}: call {k} raised {e!r} only with the cache history"
                except Exception:  # noqa
                    return False, "raises without caches as well"
            continue
        if k != len(case["seq"]) - 1 and k != v.get("call"):
            continue
        inputs, output, size = req["inputs"], req["output"], req["size"]
        if kind == "path":
            if judge(kind, got, req, arrays, strip, ep):
                return True, f"{ep} sequence {case['seq']}: call {k} returned path {got} for request {ri} (optimize={req['optimize']!r})"
            continue
        if kind == "tree":
            val = None if (strip or len(req["inputs"]) == 1) else got.contract(arrays)
        else:
            if strip:
                if judge(kind, got, req, arrays, strip, ep):
                    return True, f"{ep} sequence {case['seq']}: call {k} wrong (mantissa, exponent)"
                continue
            val = got
        if val is None:
            continue
        if isinstance(val, tuple):
            return True, f"{ep} sequence {case['seq']}: call {k} returned a (mantissa, exponent) tuple although strip_exponent was not requested"
        want = symarr.np_reference(inputs, output, size, arrays)
        if np.shape(val) != want.shape or not np.allclose(val, want, rtol=1e-9):
            return True, f"{ep} sequence {case['seq']}: call {k} (request {ri}) returned shape {np.shape(val)} / wrong values; expected shape {want.shape}"
    return False, "sequence gives correct answers on the real code"


if __name__ == "__main__":
    sys.exit(main("checks.c13"))
