"""C06 -- slices partition the contraction exactly and are reassembled
correctly.

(a) numbering: the real remove_ind / get_slice_strides / slice_key run with
    SYMBOLIC sizes of the sliced indices and a SYMBOLIC slice number i; z3
    proves key[x] in range(d_x), sum key[x]*stride[x] == i (injective), the
    converse (every key combination is hit, surjective), projected index ->
    its value, nslices == prod d, output-sliced indices first.
(b) reassembly: symbolic array entries (z3 Reals) and a symbolic projected
    value; contract() == gather_slices(contract_slice(i)) == unsliced (or
    fixed-index section) polynomial; gen_output_chunks tiles the output once.
"""

import itertools
import sys
import warnings

import numpy as np
import z3

from vlib import skel, symarr, symx
from vlib.runner import main
from vlib.symx import term

PROPERTY = "C06"
STUBS = ["autoray.register_backend(z3.ArithRef, 'numpy')"]
ASSUMPTIONS = [
    "arithmetic over the reals for array values; index sizes are mathematical integers",
    "(a) sizes of sliced indices are symbolic in [2, 6] (nonlinear div/mod is decided by z3 within that range), other sizes 2",
    "(b) sizes are realised (2/3 alternating, one size-1 variant); projected value symbolic in range(d)",
]
OUTSIDE = ["more than 3 sliced indices", "contract_mpi", "strip_exponent together with slicing (C19)"]


def bounds(tier):
    if tier == "quick":
        return dict(numbering="N<=3 skeletons (subset), <=3 sliced indices incl. projections, sizes symbolic 2..6, i symbolic",
                    reassembly="N<=3 rank<=2 skeletons, every subset of <=2 labels in every order, each sliced or projected (one rotating mode per pair), all trees")
    return dict(numbering="N<=3 skeletons, <=3 sliced indices incl. projections, sizes symbolic 2..6, i symbolic",
                reassembly="N=2 rank<=3 (every 3rd), N=3 rank<=2 (all) + rank 3 (every 60th), N=4 rank<=2 (every 60th); every ordered subset of <=2 labels (<=3 for every 4th N<=3 skeleton), sliced or projected, all trees")


def items(tier, seed):
    if tier == "quick":
        sk = skel.skeletons(2, 2, 4, 2) + skel.skeletons(3, 2, 4, 2)
        chunk = 10
        sk_a = sk[::6]
    else:
        sk = skel.skeletons(2, 3, 4, 2)[::3] + skel.skeletons(3, 2, 4, 2) + skel.skeletons(3, 3, 4, 2, max_positions=7)[::60] + skel.skeletons(4, 2, 4, 2, max_positions=7)[::60]
        chunk = 4
        sk_a = (skel.skeletons(2, 2, 4, 2) + skel.skeletons(3, 2, 4, 2))[::2]
    its = []
    for i in range(0, len(sk), chunk):
        its.append({"kind": "reassembly", "skeletons": [[list(a), b] for a, b in sk[i : i + chunk]], "tier": tier, "k": i})
    for i in range(0, len(sk_a), 6):
        its.append({"kind": "numbering", "skeletons": [[list(a), b] for a, b in sk_a[i : i + 6]], "tier": tier, "k": i})
    return its


def slice_seqs(labels, tier, maxk, salt=0):
    cfgs = []
    rot = salt
    for k in range(1, min(maxk, len(labels)) + 1):
        for sub in itertools.permutations(labels, k):
            allmodes = list(itertools.product("sp", repeat=k))
            if tier == "quick" and k > 1:
                rot += 1
                allmodes = [allmodes[rot % len(allmodes)]]
            for modes in allmodes:
                cfgs.append(tuple(zip(sub, modes)))
    return cfgs


def build_tree(inputs, output, size, ssa, cfg, proj_vals, extra=None, arrays=None):
    """extra: the same set of sliced indices is reached by a detour -- `extra` is sliced as well, one slice is
    evaluated (numbering / contraction caches are warm), then `extra` is restored"""
    from cotengra.core import ContractionTree

    tree = ContractionTree.from_path(inputs, output, size, ssa_path=ssa)
    for ix, mode in cfg:
        if mode == "s":
            tree.remove_ind_(ix)
        else:
            tree.remove_ind_(ix, project=proj_vals[ix])
    if extra is not None:
        tree.remove_ind_(extra)
        tree.slice_key(0)
        if arrays is not None:
            tree.contract_slice(arrays, 0)
        tree.restore_ind_(extra)
    return tree


def extra_for(labels, cfg, k):
    """every other case takes the detour (the label restored is the last one that is not in the configuration)"""
    if not cfg or k % 2 == 0:
        return None
    rest = [c for c in labels if c not in {ix for ix, _ in cfg}]
    return rest[-1] if rest else None


# ---------------------------------------------------------------------------
# (a) numbering


def run_numbering(item, rec):
    tier = item["tier"]
    for inputs, output in item["skeletons"]:
        inputs = tuple(inputs)
        n = len(inputs)
        labels = skel.all_labels(inputs)
        ssa = skel.all_trees(n)[0]
        for cfg in slice_seqs(labels, tier, 3, salt=len(labels)):
            if tier == "quick" and len(cfg) == 2 and (hash(cfg) % 2):
                pass
            case = dict(inputs=list(inputs), output=output, cfg=[list(x) for x in cfg], ssa=[list(p) for p in ssa])

            def harness(ctx, cfg=cfg, case=case):
                sliced = [ix for ix, m in cfg]
                size = {c: (symx.sym_int("d_" + c, 2, 6) if c in sliced else 2) for c in labels}
                proj = {ix: symx.sym_int("p_" + ix, 0) for ix, m in cfg if m == "p"}
                for ix, v in proj.items():
                    ctx.assume(term(v) < term(size[ix]))
                tree = build_tree(inputs, output, size, ssa, cfg, proj)
                si = list(tree.sliced_inds.values())
                # output (non-inner) indices must come first
                order_ok = all(not (a.inner and not b.inner) for a, b in zip(si, si[1:]))
                nsl = tree.nslices
                true_n = 1
                for ix, m in cfg:
                    if m == "s":
                        true_n = true_n * size[ix]
                i = symx.sym_int("i", 0)
                ctx.assume(term(i) < term(nsl))
                strides = __import__("cotengra.core", fromlist=["x"]).get_slice_strides(tree.sliced_inds)
                if isinstance(strides, dict):  # internal helper: accept a per-index mapping as well as the positional list
                    strides = [strides[ix] for ix in tree.sliced_inds]
                key = tree.slice_key(i)
                bads = [term(nsl) != term(true_n)]
                if not order_ok or set(key) != set(sliced):
                    bads.append(z3.BoolVal(True))
                recon = 0
                for (ix, info), st in zip(tree.sliced_inds.items(), strides):
                    k = key[ix]
                    if info.project is None:
                        bads.append(z3.Or(term(k) < 0, term(k) >= term(size[ix])))
                        recon = recon + k * st
                    else:
                        bads.append(term(k) != term(proj[ix]))
                bads.append(term(recon) != term(i))

                def viol(m):
                    return dict(case=case, size={c: symx.eval_model(m, size[c]) for c in labels}, i=symx.eval_model(m, i),
                                proj={k: symx.eval_model(m, v) for k, v in proj.items()}, signature=["C06a", list(inputs), output, case["cfg"]])

                rec.refute(ctx, z3.Or(bads), "slice_key is injective, in range, nslices=prod", viol)

                # surjectivity: arbitrary in-range key combination -> its number maps back to it
                ks = {}
                j = 0
                for (ix, info), st in zip(tree.sliced_inds.items(), strides):
                    if info.project is None:
                        ks[ix] = symx.sym_int("k_" + ix, 0)
                        ctx.assume(term(ks[ix]) < term(size[ix]))
                        j = j + ks[ix] * st
                if ks:
                    ctx.assume(z3.And(term(j) >= 0, term(j) < term(nsl)) if False else z3.BoolVal(True))
                    bads2 = [z3.Or(term(j) < 0, term(j) >= term(nsl))]
                    key2 = tree.slice_key(j)
                    for ix in ks:
                        bads2.append(term(key2[ix]) != term(ks[ix]))

                    def viol2(m):
                        return dict(case=case, size={c: symx.eval_model(m, size[c]) for c in labels}, keys={k: symx.eval_model(m, v) for k, v in ks.items()},
                                    proj={k: symx.eval_model(m, v) for k, v in proj.items()}, signature=["C06a-surj", list(inputs), output, case["cfg"]])

                    rec.refute(ctx, z3.Or(bads2), "slice_key is surjective", viol2, reach_probe=False)

            rec.add_explore(symx.explore(harness, max_paths=300, timeout_ms=5000))
        rec.sample(dict(part="numbering", inputs=list(inputs), output=output, sizes="sliced d in [2,6] symbolic", i="symbolic in [0,nslices)"))
        # engine validation: concrete run of slice_key over the full range
        size = {c: 2 + (k % 2) for k, c in enumerate(labels)}
        cfg = slice_seqs(labels, "thorough", 2)[-1] if labels else ()
        if cfg:
            tree = build_tree(inputs, output, size, ssa, cfg, {ix: 0 for ix, m in cfg})
            keys = {tuple(sorted(tree.slice_key(i).items())) for i in range(tree.nslices)}
            if len(keys) == tree.nslices:
                rec.validated += 1


# ---------------------------------------------------------------------------
# (b) reassembly


def run_reassembly(item, rec):
    tier = item["tier"]
    for si, (inputs, output) in enumerate(item["skeletons"]):
        inputs = tuple(inputs)
        n = len(inputs)
        labels = skel.all_labels(inputs)
        trees = skel.all_trees(n)
        sizes = [{c: 2 + (k % 2) for k, c in enumerate(labels)}]
        if labels:
            s1 = dict(sizes[0])
            s1[labels[si % len(labels)]] = 1
            sizes.append(s1)
        maxk = 2 if (tier == "quick" or n >= 4 or si % 4) else 3
        for size in sizes:
            arrays = symarr.sym_arrays(inputs, size)
            for ti, ssa in enumerate(trees):
                for ci, cfg in enumerate(slice_seqs(labels, tier, maxk, salt=si + ti)):
                    if tier == "quick" and len(trees) > 1 and (ci + ti) % len(trees):
                        # quick: each slicing configuration on one (rotating) tree
                        continue
                    case = dict(inputs=list(inputs), output=output, size=size, cfg=[list(x) for x in cfg], ssa=[list(p) for p in ssa], extra=extra_for(labels, cfg, ci + ti + si))

                    def harness(ctx, cfg=cfg, ssa=ssa, case=case, size=size, arrays=arrays):
                        try:
                            return harness_body(ctx, cfg, ssa, case, size, arrays)
                        except (symx.PathAbort, symx.Unsupported, symx.Budget):
                            raise
                        except Exception as e:  # noqa -- the real slicing / gathering code raised
                            rec.refute(ctx, True, "slicing machinery raised", lambda m: dict(case=case, proj={}, arrays=[a.tolist() for a in symarr.model_arrays(m, arrays)], which="contract",
                                                                                             error=repr(e), signature=["C06b", list(inputs), output, case["cfg"], "raise", type(e).__name__]))

                    def harness_body(ctx, cfg, ssa, case, size, arrays):
                        proj = {ix: symx.sym_int("p_" + ix, 0, size[ix] - 1) for ix, m in cfg if m == "p"}
                        tree = build_tree(inputs, output, size, ssa, cfg, proj, extra=case.get("extra"), arrays=arrays)
                        # projected values are concretised when used to index (forks over range)
                        got = tree.contract(arrays)
                        pv = {ix: tree.sliced_inds[ix].project for ix in proj}
                        pv = {ix: (v if type(v) is int else ctx.concretize(term(v))) for ix, v in pv.items()}
                        ref = expand_projected(symarr.dense_einsum(inputs, output, size, arrays, fixed=pv), output, pv)
                        got = symarr.as_obj_array(got)
                        bad = symarr.diff_formula(got, ref)

                        def viol(m):
                            return dict(case=case, proj=pv, arrays=[a.tolist() for a in symarr.model_arrays(m, arrays)], which="contract",
                                        got_shape=list(got.shape), signature=["C06b", list(inputs), output, case["cfg"], "contract"])

                        rec.refute(ctx, bad, "sliced contract == unsliced", viol)

                        # explicit gather of per-slice results
                        slices = [tree.contract_slice(arrays, i) for i in range(tree.nslices)]
                        got2 = symarr.as_obj_array(tree.gather_slices(slices))
                        rec.refute(ctx, symarr.diff_formula(got2, ref), "gather_slices(contract_slice) == unsliced",
                                   lambda m: dict(case=case, proj=pv, arrays=[a.tolist() for a in symarr.model_arrays(m, arrays)], which="gather",
                                                  signature=["C06b", list(inputs), output, case["cfg"], "gather"]), reach_probe=False)

                        # lazily generated output chunks tile the output exactly once
                        out_inds = list(output)
                        seen = set()
                        bads = []
                        nchunks = 0
                        for chunk, key in tree.gen_output_chunks(arrays, with_key=True):
                            nchunks += 1
                            kk = tuple(sorted(key.items()))
                            if kk in seen:
                                bads.append(True)
                            seen.add(kk)
                            # a projected output index has a length-1 axis; its key is the projected value
                            sel = tuple((0 if ix in pv else key[ix]) if (ix in key) else slice(None) for ix in out_inds)
                            if any(key[ix] != pv[ix] for ix in key if ix in pv):
                                bads.append(True)
                            # projected output indices are absent from the result
                            try:
                                sub = ref[sel]
                            except Exception:  # noqa
                                bads.append(True)
                                continue
                            b = symarr.diff_formula(symarr.as_obj_array(chunk), symarr.as_obj_array(sub))
                            if b is not False:
                                bads.append(b)
                        want_keys = 1
                        for ix, m in cfg:
                            if m == "s" and ix in output:
                                want_keys *= size[ix]
                        if nchunks != want_keys or len(seen) != want_keys:
                            bads.append(True)
                        bads = [z3.BoolVal(b) if isinstance(b, bool) else b for b in bads]
                        rec.refute(ctx, z3.Or(bads) if bads else False, "output chunks tile the output once",
                                   lambda m: dict(case=case, proj=pv, arrays=[a.tolist() for a in symarr.model_arrays(m, arrays)], which="chunks",
                                                  signature=["C06b", list(inputs), output, case["cfg"], "chunks"]), reach_probe=False)

                    rec.add_explore(symx.explore(harness, max_paths=50))
        rec.sample(dict(part="reassembly", inputs=list(inputs), output=output, sizes=sizes[0], entries="z3 Reals", projected_value="symbolic"))
        # engine validation
        size = sizes[0]
        cfgs = slice_seqs(labels, "thorough", 2)
        if cfgs:
            cfg = cfgs[-1]
            conc = symarr.generic_arrays(inputs, size, seed=2)
            tree = build_tree(inputs, output, size, trees[-1], cfg, {ix: 0 for ix, m in cfg})
            pvv = {ix: 0 for ix, m in cfg if m == "p"}
            want = expand_projected(symarr.np_reference(inputs, output, size, conc, fixed=pvv), output, pvv)
            if np.shape(tree.contract(conc)) == want.shape and np.allclose(tree.contract(conc), want):
                rec.validated += 1


def expand_projected(ref, output, pv):
    """a projected *output* index keeps its axis, with length 1 (its SliceInfo
    has size 1 and gather_slices stacks along it)"""
    ref = symarr.as_obj_array(ref)
    for pos, ix in enumerate(output):
        if ix in pv:
            ref = np.expand_dims(ref, pos)
    return ref


def run_item(item, rec):
    warnings.simplefilter("ignore")
    if item["kind"] == "numbering":
        run_numbering(item, rec)
    else:
        run_reassembly(item, rec)


def replay(v):
    warnings.simplefilter("ignore")
    case = v["case"]
    inputs, output = tuple(case["inputs"]), case["output"]
    ssa = [tuple(p) for p in case["ssa"]]
    cfg = [tuple(x) for x in case["cfg"]]
    proj = {k: int(x) for k, x in (v.get("proj") or {}).items()}
    if v["label"].startswith("slice_key"):
        size = {k: int(x) for k, x in v["size"].items()}
        tree = build_tree(inputs, output, size, ssa, cfg, proj)
        true_n = 1
        for ix, m in cfg:
            if m == "s":
                true_n *= size[ix]
        if tree.nslices != true_n:
            return True, f"nslices {tree.nslices} != prod of sliced sizes {true_n}"
        keys = [tuple(sorted(tree.slice_key(i).items())) for i in range(tree.nslices)]
        if len(set(keys)) != len(keys):
            return True, "two slice numbers map to the same key"
        for k in keys:
            for ix, val in k:
                if ix in proj:
                    if val != proj[ix]:
                        return True, f"projected index {ix} yields {val} != {proj[ix]}"
                elif not (0 <= val < size[ix]):
                    return True, f"key value {val} for {ix} outside range({size[ix]})"
        si = list(tree.sliced_inds.values())
        if any(a.inner and not b.inner for a, b in zip(si, si[1:])):
            return True, "inner sliced index ordered before an output sliced index"
        return False, "numbering is a bijection at the model sizes"
    size = case["size"]
    tries = [[np.array(a, dtype=float).reshape(tuple(size[c] for c in t)) for a, t in zip(v["arrays"], inputs)], symarr.generic_arrays(inputs, size, seed=9)]
    for arrays in tries:
        tree = build_tree(inputs, output, size, ssa, cfg, proj, extra=case.get("extra"), arrays=arrays)
        pvv = {ix: proj[ix] for ix, m in cfg if m == "p"}
        want = expand_projected(symarr.np_reference(inputs, output, size, arrays, fixed=pvv), output, pvv)
        try:
            if v["which"] == "contract":
                got = tree.contract(arrays)
            elif v["which"] == "gather":
                got = tree.gather_slices([tree.contract_slice(arrays, i) for i in range(tree.nslices)])
            else:
                out_inds = list(output)
                got = np.full(want.shape, np.nan)
                cnt = np.zeros(want.shape)
                chunks = list(tree.gen_output_chunks(arrays, with_key=True))
                for chunk, key in chunks:
                    sel = tuple((0 if ix in proj else key[ix]) if ix in key else slice(None) for ix in out_inds)
                    if np.shape(got[sel]) != np.shape(chunk):
                        return True, f"chunk for key {key} has shape {np.shape(chunk)}, expected {np.shape(got[sel])}"
                    got[sel] = chunk
                    cnt[sel] += 1
                if not np.all(cnt == 1):
                    return True, "output chunks do not tile the output exactly once"
        except Exception as e:  # noqa
            return True, f"real code raised {e!r}"
        if np.shape(got) != want.shape:
            return True, f"shape {np.shape(got)} != {want.shape}"
        if not np.allclose(got, want, rtol=1e-9, atol=1e-12):
            return True, "value mismatch"
    return False, "real code agrees with the reference"


if __name__ == "__main__":
    sys.exit(main("checks.c06"))
