"""C16 -- one optimizer object can serve many contractions, in sequence or
across threads.

(a) sequential: one shared instance of each reusable kind; the query sequence
    over a pool of different contractions is solver-chosen (every sequence of
    length <= K is a path); both `search` and `__call__`; the caller passes fresh
    objects or (solver-chosen) its own live containers edited in place.
(b) concurrent: real threads issue queries through one shared instance; a
    scheduler serialises them and every function entry and return inside
    cotengra/reusable.py, cotengra/presets.py and the search entry points of
    cotengra/hyperoptimizers/hyper.py is a potential context switch.  WHICH
    thread runs next at each switch point is a solver variable (bounded number
    of preemptions), so z3 enumerates every schedule inside the bound.
Assertion for every query: the returned tree (or path) is a complete tree /
valid path of the contraction THAT query asked about.
"""

import sys
import threading
import warnings

from vlib import symx
from vlib.runner import main

PROPERTY = "C16"
STUBS = [
    "thread scheduler: worker threads block at every function entry of reusable.py / presets.py / hyper.py search entry points (sys.monitoring PY_START) until the controller hands them the baton; the controller's choice is a solver variable",
]
ASSUMPTIONS = [
    "context switches happen only at the monitored function entries and returns (preemption between other bytecodes is outside); at most P preemptive switches per schedule",
    "sub-optimizers are deterministic here (greedy, optlib='random' with 2 repeats): the schedule / sequence is the only quantifier",
]
OUTSIDE = ["more than 3 threads, more than 2 queries per thread", "preemption inside other modules", "process pools"]


def ring(n, out=""):
    L = "abcdefghijklmnopqrstuvwxyz"
    return tuple(L[i] + L[(i + 1) % n] for i in range(n)), out, {L[i]: 2 + (i % 2) for i in range(n)}


def chain(n):
    L = "abcdefghijklmnopqrstuvwxyz"
    inputs = tuple(L[i] + L[i + 1] for i in range(n))
    return inputs, L[0] + L[n], {L[i]: 2 + (i % 3 == 0) for i in range(n + 1)}


def chain_variant(n):
    """the same contraction as chain(n) written with one operand transposed and the output permuted
    (same default fingerprint, different inputs/output)"""
    inputs, output, size = chain(n)
    inputs = list(inputs)
    inputs[1] = inputs[1][::-1]
    return tuple(inputs), output[::-1], size


POOL = [ring(4), chain(5), ring(6, ""), (("ab", "bc", "ca"), "", {"a": 2, "b": 2, "c": 3}), chain_variant(5)]
BIG = [ring(13), chain(14)]


def bounds(tier):
    return dict(a=f"instances: AutoOptimizer(cache=T/F, optimal_cutoff=0), AutoHQOptimizer(optimal_cutoff=0), ReusableHyperOptimizer, ReusableRandomGreedyOptimizer, RandomGreedyOptimizer, presets 'auto'/'auto-hq'/'greedy' (incl. 13/14-tensor queries that take the hyper branch); K={'3' if tier == 'quick' else '4'}",
                b=f"threads={'2' if tier == 'quick' else '2..3'}, queries per thread <= 2, preemptions <= {'2' if tier == 'quick' else '3'}")


def hyper_kwargs():
    return dict(methods=("greedy",), max_repeats=2, max_time=None, optlib="random", parallel=False, reconf_opts={"maxiter": 1, "subtree_size": 2})


def make_instance(kind):
    from cotengra.hyperoptimizers.hyper import ReusableHyperOptimizer
    from cotengra.pathfinders.path_basic import GreedyOptimizer, RandomGreedyOptimizer, ReusableRandomGreedyOptimizer
    from cotengra.presets import AutoHQOptimizer, AutoOptimizer

    if kind == "auto-cache":
        return AutoOptimizer(optimal_cutoff=0, cache=True, **hyper_kwargs())
    if kind == "auto-nocache":
        return AutoOptimizer(optimal_cutoff=0, cache=False, **hyper_kwargs())
    if kind == "autohq-nocache":
        return AutoHQOptimizer(optimal_cutoff=0, cache=False, **hyper_kwargs())
    if kind == "autohq-cache":
        return AutoHQOptimizer(optimal_cutoff=0, cache=True, **hyper_kwargs())
    if kind == "reusable-hyper":
        return ReusableHyperOptimizer(methods=["greedy"], max_repeats=2, optlib="random", parallel=False, progbar=False)
    if kind == "reusable-rgreedy":
        return ReusableRandomGreedyOptimizer(max_repeats=2, seed=0, accel=False, parallel=False)
    if kind == "greedy":
        return GreedyOptimizer()
    raise ValueError(kind)


INSTANCES = ["auto-cache", "auto-nocache", "autohq-cache", "autohq-nocache", "reusable-hyper", "reusable-rgreedy", "greedy"]
PRESETS = ["auto", "auto-hq", "greedy"]


def items(tier, seed):
    its = []
    for kind in INSTANCES:
        for first in range(len(POOL)):
            its.append({"part": "a", "kind": kind, "first": first, "tier": tier})
    for p in PRESETS:
        its.append({"part": "a-preset", "preset": p, "tier": tier})
    for kind in INSTANCES[:6]:
        for q0 in range(3):
            its.append({"part": "b", "kind": kind, "q0": q0, "threads": 2, "tier": tier})
        if tier != "quick":
            its.append({"part": "b", "kind": kind, "q0": 0, "threads": 3, "tier": tier})
    for kind in NESTED_KINDS:
        its.append({"part": "c", "kind": kind, "tier": tier})
    return its


def valid_linear(path, n):
    cur = n
    for con in path:
        con = list(con)
        if len(set(con)) != len(con) or any(not (0 <= c < cur) for c in con):
            return False
        cur -= len(con) - 1
    return cur == 1


def judge(q, mode, res):
    inputs, output, size = q
    n = len(inputs)
    if mode == "search":
        t = res
        if t.N != n or tuple(map(tuple, t.inputs)) != tuple(map(tuple, inputs)) or tuple(t.output) != tuple(output):
            return f"tree of another contraction: N={t.N} inputs={list(t.inputs)[:3]}.. for a query with N={n}"
        if not t.is_complete():
            return "incomplete tree"
        return None
    if not valid_linear(res, n):
        return f"path with {len(res)} steps {list(res)[:4]}.. is not a complete path over {n} tensors"
    return None


def fill_carrier(carrier, q):
    """the caller's own containers, edited in place to hold contraction q (same objects, new content)"""
    li, lo, ls = carrier
    li[:] = [tuple(t) for t in q[0]]
    lo[:] = list(q[1])
    ls.clear()
    ls.update(q[2])
    return carrier


def run_a(item, rec):
    tier = item["tier"]
    K = 3 if tier == "quick" else 4
    kind = item["kind"]
    case0 = dict(part="a", kind=kind)

    def harness(ctx):
        opt = make_instance(kind)
        seq = []
        # how the caller hands its contraction over: fresh objects per query, or one live
        # inputs list / output list / size dict that it edits in place between queries
        live = symx.choose("live", 2)
        carrier = ([], [], {})
        for k in range(K):
            qi = item["first"] if k == 0 else symx.choose(f"q{k}", len(POOL))
            mode = ["search", "call"][symx.choose(f"m{k}", 2)]
            seq.append([qi, mode])
            q = POOL[qi]
            args = fill_carrier(carrier, q) if live else q
            try:
                res = opt.search(*args) if mode == "search" else opt(*args)
                prob = judge(q, mode, res)
            except (symx.PathAbort, symx.Unsupported, symx.Budget):
                raise
            except Exception as e:  # noqa
                prob = f"raised {e!r}"
            seqc = [list(s) for s in seq]
            rec.refute(ctx, prob is not None, "answer belongs to the query",
                       lambda m, prob=prob, seqc=seqc: dict(case=dict(case0, seq=seqc, live=live), problem=prob, signature=["C16a", kind, str(seqc), live]))
            if prob is not None:
                return

    out = symx.explore(harness, max_paths=5000, deadline_s=(60 if tier == "quick" else 600))
    rec.add_explore(out)
    rec.sample(dict(part="a", kind=kind, first=item["first"], K=K, sequences=out.paths))
    rec.validated += 1


def run_a_preset(item, rec):
    import cotengra as ctg

    preset = item["preset"]
    qs = [BIG[0], POOL[0], BIG[1], POOL[1]]
    case0 = dict(part="a-preset", preset=preset)

    def harness(ctx):
        seq = []
        for k in range(3):
            qi = symx.choose(f"q{k}", len(qs))
            mode = ["tree", "path"][symx.choose(f"m{k}", 2)]
            seq.append([qi, mode])
            inputs, output, size = qs[qi]
            try:
                if mode == "tree":
                    res = ctg.array_contract_tree(inputs, output, size, optimize=preset, canonicalize=False)
                    prob = judge(qs[qi], "search", res)
                else:
                    res = ctg.array_contract_path(inputs, output, size, optimize=preset, canonicalize=False, cache=False)
                    prob = judge(qs[qi], "call", res)
            except (symx.PathAbort, symx.Unsupported, symx.Budget):
                raise
            except Exception as e:  # noqa
                prob = f"raised {e!r}"
            seqc = [list(s) for s in seq]
            rec.refute(ctx, prob is not None, "preset answer belongs to the query",
                       lambda m, prob=prob, seqc=seqc: dict(case=dict(case0, seq=seqc), problem=prob, signature=["C16p", preset, str(seqc)]))
            if prob is not None:
                return

    out = symx.explore(harness, max_paths=600, deadline_s=(90 if item["tier"] == "quick" else 900))
    rec.add_explore(out)
    rec.sample(dict(part="a-preset", preset=preset, sequences=out.paths))
    rec.validated += 1


# ---------------------------------------------------------------------------
# (b) scheduler


class Scheduler:
    """Serialises worker threads; yield points are function entries in the
    monitored files.  The controller (main thread) decides who runs next."""

    TOOL = 4

    def __init__(self, files, names=None):
        self.files = files
        self.names = names
        self.workers = {}
        self.ctrl = threading.Event()
        self.free_run = False
        self.installed = False

    def install(self):
        mon = sys.monitoring
        try:
            mon.use_tool_id(self.TOOL, "verif-sched")
        except ValueError:
            pass
        sched = self

        def on_start(code, offset):
            fn = code.co_filename
            if not any(fn.endswith(f) for f in sched.files):
                return mon.DISABLE
            if sched.names is not None and fn.endswith("hyper.py") and code.co_name not in sched.names:
                return mon.DISABLE
            w = sched.workers.get(threading.get_ident())
            if w is not None and not sched.free_run:
                w.at = f"{fn.rsplit('/', 1)[-1]}:{code.co_name}"
                w.yield_()

        def on_return(code, offset, retval):
            fn = code.co_filename
            if not any(fn.endswith(f) for f in sched.files):
                return mon.DISABLE
            if sched.names is not None and fn.endswith("hyper.py") and code.co_name not in sched.names:
                return mon.DISABLE
            w = sched.workers.get(threading.get_ident())
            if w is not None and not sched.free_run:
                w.at = f"{fn.rsplit('/', 1)[-1]}:{code.co_name}:return"
                w.yield_()

        mon.register_callback(self.TOOL, mon.events.PY_START, on_start)
        # function returns are switch points too (a caller reads shared state right after a call returns)
        mon.register_callback(self.TOOL, mon.events.PY_RETURN, on_return)
        mon.set_events(self.TOOL, mon.events.PY_START | mon.events.PY_RETURN)
        self.installed = True

    def uninstall(self):
        if self.installed:
            mon = sys.monitoring
            mon.set_events(self.TOOL, 0)
            mon.register_callback(self.TOOL, mon.events.PY_START, None)
            mon.register_callback(self.TOOL, mon.events.PY_RETURN, None)
            try:
                mon.free_tool_id(self.TOOL)
            except Exception:  # noqa
                pass
            self.installed = False


class Worker:
    def __init__(self, sched, fn, name):
        self.sched = sched
        self.fn = fn
        self.name = name
        self.go = threading.Event()
        self.done = False
        self.at = "start"
        self.result = None
        self.thread = threading.Thread(target=self._run, daemon=True)

    def _run(self):
        self.sched.workers[threading.get_ident()] = self
        self.go.wait()
        self.go.clear()
        try:
            self.result = self.fn()
        except BaseException as e:  # noqa
            self.result = ("EXC", repr(e))
        self.done = True
        self.sched.ctrl.set()

    def yield_(self):
        self.sched.ctrl.set()
        self.go.wait()
        self.go.clear()

    def step(self):
        """run this worker until its next yield point (or completion)"""
        self.sched.ctrl.clear()
        self.go.set()
        if not self.sched.ctrl.wait(timeout=120):
            raise RuntimeError("scheduler: worker did not reach a yield point in 120 s")


def run_b(item, rec):
    tier = item["tier"]
    kind = item["kind"]
    nthreads = item["threads"]
    P = 2 if tier == "quick" else 3
    # the shared state lives in reusable.py / presets.py; each thread's sub-optimizer (hyper.py) is its own object,
    # so only its entry points are switch points
    files = ["cotengra/reusable.py", "cotengra/presets.py", "cotengra/hyperoptimizers/hyper.py"]
    names = {"search", "get_tree", "tree", "path", "__call__"}
    case0 = dict(part="b", kind=kind, threads=nthreads, q0=item["q0"])
    # thread t asks queries plan[t]
    # one query is answered before the threads start (so that cache hits and misses mix);
    # thread 0 asks a new contraction and then the cached one, the others ask new ones
    warm = (item["q0"] + 1) % 3
    plans = [[item["q0"], warm]] + [[(item["q0"] + 2 + t) % 4 if (item["q0"] + 2 + t) % 4 != warm else 3, item["q0"]] for t in range(nthreads - 1)]
    modes = [["search", "search"], ["call", "search"], ["search", "call"]]

    def harness(ctx):
        opt = make_instance(kind)
        opt.search(*POOL[warm])
        sched = Scheduler(files, names)
        results = {}

        def mk(t):
            def body():
                out = []
                for j, qi in enumerate(plans[t]):
                    q = POOL[qi]
                    mode = modes[t % 3][j]
                    try:
                        res = opt.search(*q) if mode == "search" else opt(*q)
                        out.append((qi, mode, judge(q, mode, res)))
                    except Exception as e:  # noqa
                        out.append((qi, mode, f"raised {e!r}"))
                return out
            return body

        workers = [Worker(sched, mk(t), f"T{t}") for t in range(nthreads)]
        sched.install()
        schedule = []
        try:
            for w in workers:
                w.thread.start()
            cur = 0
            preempt = 0
            while not all(w.done for w in workers):
                alive = [i for i, w in enumerate(workers) if not w.done]
                if cur not in alive:
                    # forced switch: solver chooses among the alive threads
                    cur = alive[symx.choose("next", len(alive))]
                elif preempt < P and len(alive) > 1:
                    # optional preemption
                    k = symx.choose("sw", len(alive))
                    nxt = alive[k]
                    if nxt != cur:
                        preempt += 1
                        cur = nxt
                schedule.append((cur, workers[cur].at))
                workers[cur].step()
        except (symx.PathAbort, symx.Unsupported, symx.Budget):
            sched.free_run = True
            for w in workers:
                w.go.set()
            for w in workers:
                w.thread.join(timeout=60)
            raise
        finally:
            sched.free_run = True
            for w in workers:
                if not w.done:
                    w.go.set()
            for w in workers:
                w.thread.join(timeout=60)
            sched.uninstall()
        probs = []
        for t, w in enumerate(workers):
            if isinstance(w.result, tuple) and w.result and w.result[0] == "EXC":
                probs.append(f"T{t} died: {w.result[1]}")
                continue
            for qi, mode, p in w.result or []:
                if p is not None:
                    probs.append(f"T{t} query {qi} ({mode}): {p}")
        sw = [s for i, s in enumerate(schedule) if i == 0 or schedule[i - 1][0] != s[0]]
        rec.refute(ctx, bool(probs), "every thread's answers belong to its own queries",
                   lambda m: dict(case=dict(case0, plans=plans, warm=warm), problems=probs[:4], switches=[[a, b] for a, b in sw][:12], steps=[a for a, _ in schedule], signature=["C16b", kind, str(sw)[:200]]))
        return len(schedule)

    shared_kind = kind.startswith("reusable")
    out = symx.explore(harness, max_paths=((1200 if shared_kind else 300) if tier == "quick" else 20000), deadline_s=((50 if shared_kind else 30) if tier == "quick" else 1500))
    rec.add_explore(out)
    rec.sample(dict(part="b", kind=kind, threads=nthreads, plans=plans, schedules=out.paths, max_preemptions=P, yield_points_per_schedule=max([r for r in out.results if r] or [0])))
    rec.validated += 1


# ---------------------------------------------------------------------------
# (c) re-entrant use on one thread: while the optimizer object answers a query (a cache miss), the sub-optimizer it
# runs asks THE SAME object about another contraction (the library does this itself: partition builders contract
# their parts with 'auto-hq').  The outer answer must still belong to the outer query.

NESTED = {"opt": None, "inner": None, "depth": 0, "inner_problem": None, "inner_mode": "search"}


def _nested_method(inputs, output, size_dict, **kw):
    """a hyper method (public register_hyper_function) that consults the shared optimizer for another contraction"""
    from cotengra.pathfinders.path_basic import optimize_greedy

    if NESTED["opt"] is not None and NESTED["depth"] == 0 and NESTED["inner"] is not None:
        NESTED["depth"] += 1
        try:
            q = NESTED["inner"]
            res = NESTED["opt"].search(*q) if NESTED["inner_mode"] == "search" else NESTED["opt"](*q)
            NESTED["inner_problem"] = judge(q, "search" if NESTED["inner_mode"] == "search" else "call", res)
        finally:
            NESTED["depth"] -= 1
    from cotengra.core import ContractionTree

    return ContractionTree.from_path(inputs, output, size_dict, ssa_path=optimize_greedy(inputs, output, size_dict, use_ssa=True))


def make_nested_instance(kind):
    import cotengra as ctg
    from cotengra.hyperoptimizers.hyper import ReusableHyperOptimizer, list_hyper_functions
    from cotengra.presets import AutoHQOptimizer, AutoOptimizer

    if "verif-nested" not in list_hyper_functions():
        ctg.hyperoptimizers.hyper.register_hyper_function("verif-nested", _nested_method, {}, )
    kw = dict(methods=("verif-nested",), max_repeats=1, optlib="random", parallel=False)
    if kind == "reusable-hyper":
        return ReusableHyperOptimizer(progbar=False, **kw)
    if kind == "auto-cache":
        return AutoOptimizer(optimal_cutoff=0, cache=True, **kw)
    if kind == "autohq-cache":
        return AutoHQOptimizer(optimal_cutoff=0, cache=True, **kw)
    raise ValueError(kind)


NESTED_KINDS = ["reusable-hyper", "auto-cache", "autohq-cache"]


def nested_scenario(kind, outer_i, inner_i, warm_inner, outer_mode, inner_mode):
    opt = make_nested_instance(kind)
    NESTED.update(opt=None, inner=None, depth=0, inner_problem=None, inner_mode=inner_mode)
    if warm_inner:
        opt.search(*POOL[inner_i])  # the nested query will be a cache hit
    NESTED.update(opt=opt, inner=POOL[inner_i])
    try:
        q = POOL[outer_i]
        res = opt.search(*q) if outer_mode == "search" else opt(*q)
        prob = judge(q, outer_mode if outer_mode == "search" else "call", res)
        if prob is None and NESTED["inner_problem"]:
            prob = "nested query: " + NESTED["inner_problem"]
        if prob is None:
            # and afterwards both are answered from the cache with their own trees
            for qq in (POOL[outer_i], POOL[inner_i]):
                prob = prob or judge(qq, "search", opt.search(*qq))
    finally:
        NESTED.update(opt=None, inner=None)
    return prob


def run_c(item, rec):
    kind = item["kind"]

    def harness(ctx):
        outer_i = symx.choose("outer", len(POOL))
        inner_i = symx.choose("inner", len(POOL))
        warm = bool(symx.choose("inner_already_cached", 2))
        om = ["search", "call"][symx.choose("outer_mode", 2)]
        im = ["search", "call"][symx.choose("inner_mode", 2)]
        case = dict(part="c", kind=kind, outer=outer_i, inner=inner_i, warm_inner=warm, outer_mode=om, inner_mode=im)
        try:
            prob = nested_scenario(kind, outer_i, inner_i, warm, om, im)
        except (symx.PathAbort, symx.Unsupported, symx.Budget):
            raise
        except Exception as e:  # noqa
            prob = f"raised {e!r}"
        rec.refute(ctx, prob is not None, "answer belongs to the query (nested query on the same thread)",
                   lambda m: dict(case=case, problem=prob, signature=["C16c", kind, outer_i, inner_i, warm, om, im]))

    out = symx.explore(harness, max_paths=2000, deadline_s=(60 if item["tier"] == "quick" else 300))
    rec.add_explore(out)
    rec.sample(dict(part="c", kind=kind, scenarios=out.paths, what="outer query (miss) whose sub-optimizer queries the same object"))
    rec.validated += 1


def run_item(item, rec):
    warnings.simplefilter("ignore")
    {"a": run_a, "a-preset": run_a_preset, "b": run_b, "c": run_c}[item["part"]](item, rec)


def replay(v):
    warnings.simplefilter("ignore")
    case = v["case"]
    if case["part"] == "c":
        try:
            prob = nested_scenario(case["kind"], case["outer"], case["inner"], case["warm_inner"], case["outer_mode"], case["inner_mode"])
        except Exception as e:  # noqa
            prob = f"raised {e!r}"
        if prob:
            return True, f"{case['kind']}: query {case['outer']} ({case['outer_mode']}) whose sub-optimizer asks the same object about query {case['inner']} ({'cached' if case['warm_inner'] else 'not cached'}): {prob}"
        return False, "nested queries answered correctly"
    if case["part"] == "a":
        opt = make_instance(case["kind"])
        carrier = ([], [], {})
        for qi, mode in case["seq"]:
            q = POOL[qi]
            args = fill_carrier(carrier, q) if case.get("live") else q
            try:
                res = opt.search(*args) if mode == "search" else opt(*args)
                prob = judge(q, mode, res)
            except Exception as e:  # noqa
                prob = f"raised {e!r}"
            if prob:
                return True, f"{case['kind']}: sequence {case['seq']}: query {qi} ({mode}): {prob}"
        return False, "sequence answered correctly"
    if case["part"] == "a-preset":
        import cotengra as ctg

        qs = [BIG[0], POOL[0], BIG[1], POOL[1]]
        for qi, mode in case["seq"]:
            inputs, output, size = qs[qi]
            try:
                if mode == "tree":
                    prob = judge(qs[qi], "search", ctg.array_contract_tree(inputs, output, size, optimize=case["preset"], canonicalize=False))
                else:
                    prob = judge(qs[qi], "call", ctg.array_contract_path(inputs, output, size, optimize=case["preset"], canonicalize=False, cache=False))
            except Exception as e:  # noqa
                prob = f"raised {e!r}"
            if prob:
                return True, f"preset {case['preset']!r}: sequence {case['seq']}: query {qi} ({mode}): {prob}"
        return False, "ok"
    # (b) re-run the recorded schedule with real threads
    files = ["cotengra/reusable.py", "cotengra/presets.py", "cotengra/hyperoptimizers/hyper.py"]
    names = {"search", "get_tree", "tree", "path", "__call__"}
    plans = case["plans"]
    modes = [["search", "search"], ["call", "search"], ["search", "call"]]
    opt = make_instance(case["kind"])
    if case.get("warm") is not None:
        opt.search(*POOL[case["warm"]])
    sched = Scheduler(files, names)

    def mk(t):
        def body():
            out = []
            for j, qi in enumerate(plans[t]):
                q = POOL[qi]
                mode = modes[t % 3][j]
                try:
                    res = opt.search(*q) if mode == "search" else opt(*q)
                    out.append((qi, mode, judge(q, mode, res)))
                except Exception as e:  # noqa
                    out.append((qi, mode, f"raised {e!r}"))
            return out
        return body

    workers = [Worker(sched, mk(t), f"T{t}") for t in range(len(plans))]
    sched.install()
    try:
        for w in workers:
            w.thread.start()
        for tid in v["steps"]:
            if not workers[tid].done:
                workers[tid].step()
        while not all(w.done for w in workers):
            for w in workers:
                if not w.done:
                    w.step()
    finally:
        sched.free_run = True
        for w in workers:
            if not w.done:
                w.go.set()
        for w in workers:
            w.thread.join(timeout=60)
        sched.uninstall()
    probs = []
    for t, w in enumerate(workers):
        for qi, mode, p in (w.result if isinstance(w.result, list) else []):
            if p:
                probs.append(f"T{t} query {qi} ({mode}): {p}")
    if probs:
        return True, f"{case['kind']} shared by {len(plans)} threads, switches {v['switches'][:6]}: {probs[0]}"
    return False, "recorded schedule did not reproduce the problem"


if __name__ == "__main__":
    sys.exit(main("checks.c16"))
