"""C07 -- the slice finder's predicted costs are real and its targets are
honoured.

(A) search: SliceFinder.__init__/trial/search/best run with a SYMBOLIC target
    value (target_size / target_slices Int, target_overhead Real), every
    Boltzmann smudge draw a solver variable (log(-log(u)) as a real in the
    double range), on trees that may already be sliced.  Whenever search
    returns (ix_sl, cost): the tree actually sliced on ix_sl has
    max_size == cost.size, per-slice flops == cost.flops,
    multiplicity == cost.nslices * multiplicity_before; the requested target
    holds on that tree; no forbidden index was chosen.
(B) incremental model lemma with symbolic sizes: ContractionCosts.remove(ix)
    (and two successive removals) == ContractionCosts rebuilt from the sliced
    tree, including the per-index flop / write reductions that drive the
    scores.
"""

import sys
import warnings

import z3

from vlib import skel, stubs, symx
from vlib.runner import main
from vlib.symx import term

PROPERTY = "C07"
STUBS = [
    "cotengra.slicer.log -> stub: log(u) for a uniform draw u, then log(-log(u)) = a fresh real in [-36.75, 3.61] (its range over doubles)",
    "SymRng via the public seed= argument",
]
ASSUMPTIONS = [
    "(A) index sizes concrete (scores take logs of cost reductions); temperature in {0.01, 1.0}; target values symbolic",
    "(B) sizes symbolic in [2, 8] (nonlinear div)",
    "target_overhead is compared with a relative tolerance of 1e-9 (the finder divides in floating point)",
    "exceptions from search (empty candidate set, 'Ran out of valid indices') are permitted outcomes: the property constrains returned values only",
]
OUTSIDE = ["max_repeats > 2", "PathInfo (opt_einsum) inputs to SliceFinder"]

NETWORKS = [
    (("ab", "bc", "cd", "da"), "", {"a": 2, "b": 3, "c": 2, "d": 4}),
    (("ab", "bc", "cd", "de"), "ae", {"a": 2, "b": 4, "c": 3, "d": 2, "e": 3}),
    (("abx", "bcx", "cdx"), "ax", {"a": 2, "b": 3, "c": 2, "d": 2, "x": 3}),
    (("abc", "cde", "efa", "bdf"), "", {"a": 2, "b": 2, "c": 3, "d": 2, "e": 2, "f": 3}),
    (("ab", "bc", "cd", "de", "ea"), "", {"a": 2, "b": 3, "c": 2, "d": 3, "e": 2}),
    (("ab", "bcd", "de", "ef", "fa"), "cd", {"a": 2, "b": 2, "c": 3, "d": 2, "e": 2, "f": 2}),
]


def bounds(tier):
    if tier == "quick":
        return dict(A="4 networks x {greedy tree} x already-sliced {none, one index} x target kind {size, slices, overhead} x allow_outer {True, False, 'only'} x temperature {0.01, 1.0}, max_repeats in {1,2}; <=400 paths per configuration",
                    B="skeletons N<=3 rank<=2 (every 5th), all trees, every index and every ordered pair of indices")
    return dict(A="6 networks x {greedy, caterpillar} x already-sliced {none, each single index}, max_repeats {1,2,3}; <=3000 paths", B="skeletons N<=3 (every 2nd) + N=4 (every 10th)")


def items(tier, seed):
    its = []
    nets = NETWORKS[:4] if tier == "quick" else NETWORKS
    for ni, (inputs, output, size) in enumerate(nets):
        labels = skel.all_labels(inputs)
        pres = [None] + ([labels[ni % len(labels)]] if tier == "quick" else labels)
        for init in (("greedy",) if tier == "quick" else ("greedy", "caterpillar")):
            for pre in pres:
                for kind in ("size", "slices", "overhead"):
                    for outer in (True, False, "only"):
                        for temp in (0.01, 1.0):
                            its.append({"kind": "A", "inputs": list(inputs), "output": output, "size": size, "init": init, "pre": pre, "target": kind, "outer": outer, "temp": temp, "tier": tier})
    # the same networks under multi-character labels that share characters (k1, k12, k2, k13, ...): labels are opaque keys
    for ni, (inputs, output, size) in enumerate(nets):
        rin, rout, rsize = relabel(inputs, output, size)
        for kind in ("size", "slices", "overhead"):
            for temp in ((1.0,) if tier == "quick" else (0.01, 1.0)):
                its.append({"kind": "A", "inputs": rin, "output": rout, "size": rsize, "init": "greedy", "pre": None, "target": kind, "outer": True, "temp": temp, "tier": tier})
    # part C: the tree.slice front end (reslice / inplace solver-chosen) on fresh and on already sliced trees
    for ni, (inputs, output, size) in enumerate(nets):
        labels = skel.all_labels(inputs)
        for pre in [None] + (labels[:2] if tier == "quick" else labels):
            for kind in ("size", "slices"):
                for outer in ((True,) if tier == "quick" else (True, False)):
                    its.append({"kind": "C", "inputs": list(inputs), "output": output, "size": size, "init": "greedy", "pre": pre, "target": kind, "outer": outer, "temp": 0.01, "tier": tier})
    sk = skel.skeletons(2, 2, 4, 1, outputs="unordered") + skel.skeletons(3, 2, 4, 1, outputs="unordered")
    sk = sk[::5] if tier == "quick" else sk[::2] + skel.skeletons(4, 2, 4, 1, max_positions=7, outputs="unordered")[::10]
    for i in range(0, len(sk), 3):
        its.append({"kind": "B", "skeletons": [[list(a), b] for a, b in sk[i : i + 3]], "tier": tier, "k": i})
    return its


def relabel(inputs, output, size):
    labels = skel.all_labels(inputs, output)
    names = []
    for i in range(len(labels)):
        names.append(f"k{i // 2 + 1}" if i % 2 == 0 else f"k1{i // 2 + 2}")
    mp = dict(zip(labels, names))
    return [[mp[c] for c in t] for t in inputs], [mp[c] for c in output], {mp[c]: d for c, d in size.items()}


def make_tree(item):
    from checks.c02 import initial_tree

    inputs, output, size = tuple(tuple(t) for t in item["inputs"]), tuple(item["output"]), item["size"]
    tree = initial_tree(inputs, output, size, item["init"])
    if item["pre"]:
        tree.remove_ind_(item["pre"])
    return tree


def judge(tree0, ix_sl, cost, kind, tval, outer):
    """returns list of z3 / python bool 'bad' conditions and the actual figures"""
    t = tree0.copy()
    for ix in sorted(ix_sl):
        t.remove_ind_(ix)
    act = t.contract_stats()
    mult0 = tree0.multiplicity
    orig_flops = tree0.total_flops() // mult0  # per-slice flops before the search (cost0.flops)
    bads = []
    bads.append(act["size"] != cost.size)
    bads.append(act["flops"] != t.multiplicity * cost.flops)
    bads.append(t.multiplicity != cost.nslices * mult0)
    bads.append(cost.total_flops != cost.nslices * cost.flops)
    out = set(tree0.output)
    if outer is False and (set(ix_sl) & out):
        bads.append(True)
    if outer == "only" and (set(ix_sl) - out):
        bads.append(True)
    # target
    if kind == "size":
        tb = term(tval) < act["size"]
    elif kind == "slices":
        tb = term(tval) > cost.nslices
    else:
        # overhead = total cost / original cost
        # the finder compares a floating-point ratio with the target: allow its rounding (1e-9 relative)
        tb = z3.ToReal(z3.IntVal(act["flops"])) * 1000000000 > term(tval) * (mult0 * orig_flops) * 1000000001
    return bads, tb, dict(size=act["size"], flops=act["flops"], mult=t.multiplicity)


def run_A(item, rec):
    import cotengra.slicer as SL

    orig_log = SL.log
    tree0 = make_tree(item)
    tree0.contract_stats()
    kind, outer, temp = item["target"], item["outer"], item["temp"]
    tier = item["tier"]
    case = {k: item[k] for k in ("inputs", "output", "size", "init", "pre", "target", "outer", "temp")}
    reps = (1, 2) if tier == "quick" else (1, 2, 3)
    try:
        for max_repeats in reps:

            def harness(ctx, max_repeats=max_repeats):
                stubs.LINKS.clear()
                SL.log = stubs.sym_log_any
                rng = stubs.SymRng("sf")
                if kind == "size":
                    tval = symx.sym_int("target_size", 1, max(2, tree0.max_size()))
                    kw = dict(target_size=tval)
                elif kind == "slices":
                    tval = symx.sym_int("target_slices", 1, 24)
                    kw = dict(target_slices=tval)
                else:
                    tval = symx.sym_real("target_overhead", 1, 4)
                    kw = dict(target_overhead=tval)
                how = ["ctor", "call"][symx.choose("how", 2)]
                if how == "ctor":
                    sf = SL.SliceFinder(tree0, temperature=temp, allow_outer=outer, seed=rng, **kw)
                    skw = {}
                else:
                    # the finder is built with a loose target, the requested one is given per call to search()
                    loose = {"size": dict(target_size=max(2, tree0.max_size())), "slices": dict(target_slices=1), "overhead": dict(target_overhead=8.0)}[kind]
                    sf = SL.SliceFinder(tree0, temperature=temp, allow_outer=outer, seed=rng, **loose)
                    skw = kw
                try:
                    ix_sl, cost = sf.search(max_repeats, **skw)
                except (symx.PathAbort, symx.Unsupported, symx.Budget):
                    raise
                except (RuntimeError, ValueError, KeyError) as e:
                    # impossible targets legitimately raise; the KeyError on fully sliced trees is recorded in DESIGN 8.3 (not tied to C07)
                    k = f"search_raised:{type(e).__name__}"
                    rec.notes[k] = rec.notes.get(k, 0) + 1
                    return None
                except Exception as e:  # noqa -- any other exception of the finder is a violation candidate
                    err = repr(e)
                    rec.refute(ctx, True, "slice search raised", lambda m: dict(case=dict(case, max_repeats=max_repeats, how=how), ix_sl=[], predicted={}, actual={}, raised=err,
                                                                                 target=float(symx.eval_model(m, tval)), signature=["C07A", case["inputs"], case["pre"], kind, str(outer), how, "raised", type(e).__name__]))
                    return None
                if not set(ix_sl) <= set(tree0.size_dict):
                    # the finder returned something that is not a set of indices of this network
                    got = sorted(map(str, ix_sl))
                    rec.refute(ctx, True, "slice search raised", lambda m: dict(case=dict(case, max_repeats=max_repeats, how=how), ix_sl=got, predicted={}, actual={}, raised="returned labels are not indices of the network",
                                                                                 target=float(symx.eval_model(m, tval)), signature=["C07A", case["inputs"], case["pre"], kind, str(outer), how, "not-indices"]))
                    return None
                bads, tb, act = judge(tree0, ix_sl, cost, kind, tval, outer)
                bad_conc = any(b is True or (isinstance(b, bool) and b) for b in bads)

                def viol(m):
                    return dict(case=dict(case, max_repeats=max_repeats, how=how), ix_sl=sorted(ix_sl), predicted=dict(size=cost.size, flops=cost.flops, nslices=cost.nslices),
                                actual=act, target=float(symx.eval_model(m, tval)), signature=["C07A", case["inputs"], case["pre"], kind, str(outer), how, sorted(ix_sl)])

                rec.refute(ctx, z3.Or(z3.BoolVal(bool(bad_conc)), tb), "prediction == sliced tree and target honoured", viol)
                return tuple(sorted(ix_sl))

            out = symx.explore(harness, max_paths=(400 if tier == "quick" else 3000), deadline_s=(20 if tier == "quick" else 120))
            rec.add_explore(out)
        rec.sample(dict(part="A", case=case, distinct_index_sets=len({r for r in out.results if r is not None}), target="symbolic", smudge="every draw symbolic"))
    finally:
        SL.log = orig_log
    # engine validation: concrete search
    sf = SL.SliceFinder(tree0, target_slices=2, seed=1)
    try:
        ix_sl, cost = sf.search(2)
        bads, tb, act = judge(tree0, ix_sl, cost, "slices", 2, True)
        rec.validated += int(not any(bads))
    except RuntimeError:
        rec.validated += 1


def run_C(item, rec):
    """tree.slice(...): the RETURNED tree honours the target, whatever reslice / inplace are and whether or not
    the tree was sliced before"""
    import cotengra.slicer as SL

    orig_log = SL.log
    tree0 = make_tree(item)
    tree0.contract_stats()
    kind, outer, temp, pre = item["target"], item["outer"], item["temp"], item["pre"]
    case = {k: item[k] for k in ("inputs", "output", "size", "init", "pre", "target", "outer", "temp")}
    unsliced_max = make_tree(dict(item, pre=None)).max_size()
    try:

        def harness(ctx):
            stubs.LINKS.clear()
            SL.log = stubs.sym_log_any
            rng = stubs.SymRng("ts")
            reslice = bool(symx.choose("reslice", 2))
            inplace = bool(symx.choose("inplace", 2))
            if kind == "size":
                tval = symx.sym_int("target_size", 1, max(2, unsliced_max))
                kw = dict(target_size=tval)
            else:
                tval = symx.sym_int("target_slices", 1, 12)
                kw = dict(target_slices=tval)
            src = tree0.copy()
            how = dict(reslice=reslice, inplace=inplace)
            try:
                t = src.slice(temperature=temp, allow_outer=outer, max_repeats=2, reslice=reslice, inplace=inplace, seed=rng, **kw)
            except (symx.PathAbort, symx.Unsupported, symx.Budget):
                raise
            except (RuntimeError, ValueError, KeyError) as e:
                k = f"slice_raised:{type(e).__name__}"
                rec.notes[k] = rec.notes.get(k, 0) + 1
                return None
            bads = []
            if inplace and t is not src:
                bads.append(z3.BoolVal(True))
            if not inplace and (src.sliced_inds != tree0.sliced_inds):
                bads.append(z3.BoolVal(True))  # the original must be left alone
            if kind == "size":
                bads.append(term(t.max_size()) > term(tval))
            else:
                # 'on top of the current number of slices': counted from the tree the search starts from
                base = 1 if reslice else tree0.nslices
                bads.append(term(t.nslices) < term(tval) * base)
            if outer is False and (set(t.sliced_inds) - set(tree0.sliced_inds if not reslice else ())) & set(tree0.output):
                bads.append(z3.BoolVal(True))

            def viol(m):
                return dict(case=dict(case, **how), sliced=sorted(t.sliced_inds), actual=dict(size=t.max_size(), nslices=t.nslices), target=float(symx.eval_model(m, tval)),
                            signature=["C07C", case["inputs"], str(pre), kind, str(outer), reslice, inplace, sorted(t.sliced_inds)])

            rec.refute(ctx, z3.Or(bads), "tree.slice: the returned tree honours the target", viol)
            return tuple(sorted(t.sliced_inds))

        out = symx.explore(harness, max_paths=(300 if item["tier"] == "quick" else 3000), deadline_s=(15 if item["tier"] == "quick" else 120))
        rec.add_explore(out)
        rec.sample(dict(part="C", case=case, distinct_index_sets=len({r for r in out.results if r is not None}), reslice="solver-chosen", inplace="solver-chosen"))
    finally:
        SL.log = orig_log
    rec.validated += 1


def costs_equal(a, b, labels):
    bads = [term(a._flops) != term(b._flops), term(a.size) != term(b.size)]
    for ix in labels:
        if ix in b.size_dict:
            bads.append(term(a._flop_reductions.get(ix, 0)) != term(b._flop_reductions.get(ix, 0)))
            bads.append(term(a._write_reductions.get(ix, 0)) != term(b._write_reductions.get(ix, 0)))
    return bads


def run_B(item, rec):
    from cotengra.core import ContractionTree
    from cotengra.slicer import ContractionCosts

    for inputs, output in item["skeletons"]:
        inputs = tuple(inputs)
        n = len(inputs)
        labels = skel.all_labels(inputs)
        for ssa in skel.all_trees(n):
            seqs = [(a,) for a in labels] + [(a, b) for a in labels for b in labels if a != b]
            for seq in seqs:
                case = dict(kind="B", inputs=list(inputs), output=output, ssa=[list(p) for p in ssa], seq=list(seq))

                cur = {}

                def harness(ctx, ssa=ssa, seq=seq, case=case, cur=cur):
                    size = {c: symx.sym_int("d_" + c, 2, 8) for c in labels}
                    cur["size"] = size
                    tree = ContractionTree.from_path(inputs, output, size, ssa_path=ssa)
                    tree.contract_stats()
                    cost = ContractionCosts.from_contraction_tree(tree)
                    t = tree
                    nsl = 1
                    bads = []
                    for ix in seq:
                        try:
                            cost = cost.remove(ix)
                        except KeyError:
                            # index involved in no contraction (e.g. summed in preprocessing): not removable
                            return None
                        t = t.remove_ind(ix)
                        nsl = nsl * size[ix]
                        ref = ContractionCosts.from_contraction_tree(t)
                        bads += costs_equal(cost, ref, [c for c in labels if c not in seq])
                        bads.append(term(cost.nslices) != term(nsl))
                    symx.keys_guard(cost._sizes._c)

                    def viol(m):
                        return dict(case=case, size={c: symx.eval_model(m, size[c]) for c in labels}, signature=["C07B", list(inputs), output, str(ssa), list(seq)])

                    rec.refute(ctx, z3.Or(bads), "ContractionCosts.remove == rebuild from sliced tree", viol)

                rec.add_explore(symx.explore(rec.guard_harness(harness, "ContractionCosts.remove == rebuild from sliced tree", lambda m, case=case, cur=cur, ssa=ssa, seq=seq: dict(
                    case=case, size={c: symx.eval_model(m, cur["size"][c]) for c in labels}, signature=["C07B", list(inputs), output, str(ssa), list(seq)])), max_paths=200, deadline_s=15, timeout_ms=3000))
        rec.sample(dict(part="B", inputs=list(inputs), output=output, sizes="symbolic in [2,8]"))
    rec.validated += 1


def run_item(item, rec):
    warnings.simplefilter("ignore")
    {"A": run_A, "B": run_B, "C": run_C}[item["kind"]](item, rec)


def replay(v):
    warnings.simplefilter("ignore")
    from cotengra.core import ContractionTree
    from cotengra.slicer import ContractionCosts

    case = v["case"]
    if case.get("kind") == "B":
        size = {k: int(x) for k, x in v["size"].items()}
        inputs, output = tuple(case["inputs"]), case["output"]
        tree = ContractionTree.from_path(inputs, output, size, ssa_path=[tuple(p) for p in case["ssa"]])
        tree.contract_stats()
        cost = ContractionCosts.from_contraction_tree(tree)
        t = tree
        for ix in case["seq"]:
            cost = cost.remove(ix)
            t = t.remove_ind(ix)
            ref = ContractionCosts.from_contraction_tree(t)
            for c in size:
                if c in ref.size_dict:
                    if cost._flop_reductions.get(c, 0) != ref._flop_reductions.get(c, 0) or cost._write_reductions.get(c, 0) != ref._write_reductions.get(c, 0):
                        return True, f"after removing {ix}: reductions for {c} incremental ({cost._flop_reductions.get(c, 0)},{cost._write_reductions.get(c, 0)}) vs rebuilt ({ref._flop_reductions.get(c, 0)},{ref._write_reductions.get(c, 0)}) sizes {size}"
            if cost._flops != ref._flops or cost.size != ref.size:
                return True, f"after removing {ix}: incremental flops/size {cost._flops}/{cost.size} vs rebuilt {ref._flops}/{ref.size}"
        return False, "incremental model agrees with the rebuild"
    if "reslice" in case:
        # (C) tree.slice on ordinary seeds
        kind = case["target"]
        tval = int(v["target"])
        for seed in range(16):
            tree0 = make_tree(dict(case))
            src = tree0.copy()
            try:
                t = src.slice(temperature=case["temp"], allow_outer=case["outer"], max_repeats=2, reslice=case["reslice"], inplace=case["inplace"], seed=seed,
                              **({"target_size": tval} if kind == "size" else {"target_slices": tval}))
            except (RuntimeError, ValueError, KeyError):
                continue
            what = f"tree.slice(target_{kind}={tval}, reslice={case['reslice']}, inplace={case['inplace']}) on a tree with sliced indices {sorted(tree0.sliced_inds)}"
            if kind == "size" and t.max_size() > tval:
                return True, f"{what}: returned tree has max_size {t.max_size()} (sliced {sorted(t.sliced_inds)}, seed {seed})"
            base = 1 if case["reslice"] else tree0.nslices
            if kind == "slices" and t.nslices < tval * base:
                return True, f"{what}: returned tree has {t.nslices} slices, {base} before (seed {seed})"
            if not case["inplace"] and src.sliced_inds != tree0.sliced_inds:
                return True, f"{what}: the original tree was modified"
        return False, "targets honoured on 16 seeds"
    # (A): replay the prediction path of the real code: remove the returned indices one by one
    item = dict(case)
    tree0 = make_tree(item)
    tree0.contract_stats()
    if "raised" in v:
        # the search raised something no caller can expect, or returned labels that are not indices: ordinary seeds, the model's target
        import signal
        from cotengra.slicer import SliceFinder

        kind0 = case["target"]
        tv = v["target"] if kind0 == "overhead" else int(v["target"])
        kw = {"size": dict(target_size=tv), "slices": dict(target_slices=tv), "overhead": dict(target_overhead=tv)}[kind0]

        def _alarm(*a):
            raise TimeoutError("slice search did not terminate within 20 s")

        for seed in range(8):
            old_h = signal.signal(signal.SIGALRM, _alarm)
            signal.alarm(20)
            try:
                sf = SliceFinder(tree0, temperature=case["temp"], allow_outer=case["outer"], seed=seed, **kw)
                ix_sl, _ = sf.search(case.get("max_repeats", 1))
            except (RuntimeError, ValueError, KeyError):
                continue
            except Exception as e:  # noqa
                return True, f"SliceFinder.search(target_{kind0}={tv}, seed={seed}) on labels {sorted(tree0.size_dict)}: {e!r}"
            finally:
                signal.alarm(0)
                signal.signal(signal.SIGALRM, old_h)
            if not set(ix_sl) <= set(tree0.size_dict):
                return True, f"SliceFinder.search(target_{kind0}={tv}, seed={seed}) returned {sorted(map(str, ix_sl))}, not indices of the network {sorted(tree0.size_dict)}"
        return False, "search returned index sets of the network on 8 seeds"
    cost = ContractionCosts.from_contraction_tree(tree0)
    for ix in v["ix_sl"]:
        cost = cost.remove(ix)
    pred = v["predicted"]
    if (cost.size, cost.flops, cost.nslices) != (pred["size"], pred["flops"], pred["nslices"]):
        return False, "could not re-derive the recorded prediction"
    t = tree0.copy()
    for ix in v["ix_sl"]:
        t.remove_ind_(ix)
    act = t.contract_stats()
    probs = []
    if act["size"] != cost.size or act["flops"] != t.multiplicity * cost.flops or t.multiplicity != cost.nslices * tree0.multiplicity:
        probs.append(f"predicted size/flops/nslices {cost.size}/{cost.flops}/{cost.nslices} vs sliced tree size {act['size']} flops {act['flops']} multiplicity {t.multiplicity} (before: {tree0.multiplicity})")
    kind, tval = case["target"], v["target"]
    if kind == "size" and act["size"] > tval:
        probs.append(f"target_size {tval} but sliced tree has max size {act['size']}")
    if kind == "slices" and cost.nslices < tval:
        probs.append(f"target_slices {tval} but only {cost.nslices} slices")
    if kind == "overhead" and act["flops"] > tval * tree0.total_flops() * (1 + 1e-9):
        probs.append(f"target_overhead {tval} but total flops {act['flops']} vs original {tree0.total_flops()}")
    out = set(case["output"])
    if case["outer"] is False and set(v["ix_sl"]) & out:
        probs.append(f"output index sliced although allow_outer=False: {v['ix_sl']}")
    if case["outer"] == "only" and set(v["ix_sl"]) - out:
        probs.append(f"inner index sliced although allow_outer='only': {v['ix_sl']}")
    if probs:
        return True, "; ".join(probs) + f" [indices {v['ix_sl']} are reachable by search with suitable smudge draws]"
    return False, "prediction and target hold on the real sliced tree"


if __name__ == "__main__":
    sys.exit(main("checks.c07"))
