"""C03 -- reported flops / write / max size / peak match the definition and
the shapes actually produced while contracting.

Symbolic: every index size (unbounded z3 Int >= 2, or concretely 1 for an
enumerated subset of labels), the traversal-order keys (fresh Int per node),
the projected value.  Enumerated: skeletons, all trees, sliced/projected index
subsets (with removal order).
Oracle: vlib.costs.tree_costs (definition from the network alone).
Part (b): the real Contractor/extract_contractions/slice_arrays run on
shape-only arrays with symbolic dimensions; every produced intermediate's
shape is compared with the tree's get_inds/get_size/get_flops of that step.
"""

import itertools
import sys
import warnings

import z3

from vlib import costs, skel, symx
from vlib.runner import main
from vlib.shapearr import Recorder, ShapeArr
from vlib.symx import term

PROPERTY = "C03"

STUBS = [
    "implementation=(einsum, tensordot) public hook receives shape-propagating callables (numpy's shape rules) for part (b)",
    "autoray backend 'shapearr' registered with a transpose that permutes the symbolic shape",
]
ASSUMPTIONS = [
    "index sizes are mathematical integers >= 1 (python ints do not overflow)",
    "a label has either concrete size 1 (enumerated) or a symbolic size >= 2, so that Counter keys with a constant symbolic hash never need to equal a concrete key (keys_guard re-checks this on every path)",
]
OUTSIDE = [
    "dtype= / log= variants of the getters (floating point)",
    "compressed statistics (C20)",
    "networks beyond the skeleton bound",
]


def bounds(tier):
    if tier == "quick":
        return dict(tensors="2..3", max_rank=2, max_labels=4, max_out_rank=2, trees="all", sizes="unbounded Int >= 2; plus one (rotating) label == 1",
                    sliced="every subset of <=2 labels, singletons both sliced and projected, pairs one rotating mode, one removal order; plus remove->restore sequences (per pair one rotating label restored while the other stays removed)")
    return dict(tensors="2..4", max_rank="N=2: 3; N=3: 2 (all) + 3 (every 25th); N=4: 2 (every 40th) + 5 fixed", max_labels=4, max_out_rank=2, trees="all",
                sizes="unbounded Int >= 2, or ==1 for any subset of <=2 labels",
                sliced="every subset of <=2 labels (<=3 for N<=3), sliced or projected, every removal order; plus remove->restore sequences (every singleton, every pair order with either label restored)")


def items(tier, seed):
    if tier == "quick":
        sk = skel.skeletons(2, 2, 4, 2, outputs="unordered") + skel.skeletons(3, 2, 4, 2, outputs="unordered")
        chunk = 8
    else:
        sk = (
            skel.skeletons(2, 3, 4, 2, outputs="unordered")
            + skel.skeletons(3, 2, 4, 2, outputs="unordered")
            + [s_ for s_ in skel.skeletons(3, 3, 4, 2, max_positions=7, outputs="unordered") if max(map(len, s_[0])) == 3][::25]
            + skel.skeletons(4, 2, 4, 2, max_positions=7, outputs="unordered")[::40]
        )
        chunk = 4
    its = [
        {"skeletons": [[list(a), b] for a, b in sk[i : i + chunk]], "tier": tier, "k": i}
        for i in range(0, len(sk), chunk)
    ]
    # a few 4-tensor networks in every tier (k-ary construction steps need N >= 4)
    for j, s4 in enumerate(FIXED4):
        its.append({"skeletons": [[list(s4[0]), s4[1]]], "tier": tier, "k": 100000 + j, "fixed4": True})
    return its


FIXED4 = [
    (("aab", "ac", "ad", "b"), ""),
    (("aab", "abc", "cd", "d"), ""),
    (("aa", "ab", "bc", "cd"), "d"),
    (("ab", "bc", "cd", "da"), ""),
    (("abx", "bx", "cx", "ac"), "x"),
]


def _unused():
    return None


class SymOrder:
    def __init__(self):
        self.keys = {}

    def __call__(self, node):
        try:
            return self.keys[node]
        except KeyError:
            k = self.keys[node] = symx.sym_int("ord_" + "_".join(map(str, sorted(node))))
            return k


def slice_configs(labels, tier, n):
    """(removal sequence) lists of (label, mode) with mode 's' or 'p'."""
    cfgs = [()]
    maxk = 2 if (tier == "quick" or n >= 4) else 3
    rot = 0
    for k in range(1, min(maxk, len(labels)) + 1):
        for sub in itertools.combinations(labels, k):
            allmodes = list(itertools.product("sp", repeat=k))
            if tier == "quick" and k > 1:
                # one (rotating) mode assignment per pair in the quick tier
                rot += 1
                allmodes = [allmodes[rot % len(allmodes)]]
            for modes in allmodes:
                seqs = [tuple(zip(sub, modes))]
                if tier == "thorough" and k > 1:
                    seqs = [tuple(p) for p in itertools.permutations(tuple(zip(sub, modes)))]
                cfgs.extend(seqs)
                # remove -> (remove) -> restore: a restoration while another index is still sliced / projected
                # (mode 'r' restores the label); quick: one rotating restored label per pair
                if k == 1 and tier == "thorough":
                    cfgs.append(tuple(zip(sub, modes)) + ((sub[0], "r"),))
                if k == 2:
                    for base in seqs if tier == "thorough" else seqs[:1]:
                        which = range(2) if tier == "thorough" else [rot % 2]
                        for w in which:
                            cfgs.append(base + ((base[w][0], "r"),))
    return cfgs


def effective(cfg):
    """(sliced, projected) labels left after the removal / restoration sequence"""
    state = {}
    for ix, m in cfg:
        if m == "r":
            state.pop(ix)
        else:
            state[ix] = m
    return [ix for ix, m in state.items() if m == "s"], [ix for ix, m in state.items() if m == "p"]


def ones_patterns(labels, tier, salt=0):
    pats = [()]
    if tier == "thorough":
        pats += [(c,) for c in labels]
        pats += list(itertools.combinations(labels, 2))
    elif labels:
        # quick: one label (rotating with the skeleton) has size 1
        pats.append((labels[salt % len(labels)],))
    return pats


def ssa_to_lin(ssa, n):
    ids = list(range(n))
    out = []
    nxt = n
    for con in ssa:
        pos = sorted(ids.index(c) for c in con)
        out.append(tuple(pos))
        for p_ in reversed(pos):
            ids.pop(p_)
        ids.append(nxt)
        nxt += 1
    return out


def warm_up(tree):
    """ask for every figure (fills every per-node cache, leaves included) before the tree is modified"""
    tree.peak_size()
    tree.contract_stats()
    tree.total_flops(), tree.total_write(), tree.max_size()
    for nd in list(tree.info):
        tree.get_size(nd)
        tree.get_legs(nd)
        if len(nd) > 1:
            tree.get_flops(nd)
            tree.get_involved(nd)


def make_tree(inputs, output, size, ssa, cfg, variant, build="ssa", warm=0):
    from cotengra.core import ContractionTree

    n = len(inputs)
    if build == "multi" and n >= 3:
        # the same tree, but built through the multi-node route: one n-ary step whose inner
        # order is supplied as an explicit path (legs of the group are asked for before it has children)
        tree = ContractionTree.from_path(inputs, output, size, path=[tuple(range(n))], optimize=ssa_to_lin(ssa, n))
    elif build == "multi3" and n >= 4:
        # a 3-ary first step inside a larger network: the group's legs are computed before it has children
        inner = ssa_to_lin([p_ for p_ in ssa if max(p_) < n + 1][:2], 3) if False else [(0, 1), (0, 1)]
        tree = ContractionTree.from_path(inputs, output, size, path=[(0, 1, 2)] + [(0, 1)] * (n - 3), optimize=inner)
    elif build == "auto" and n >= 3:
        tree = ContractionTree.from_path(inputs, output, size, path=[], autocomplete=True, optimize=ssa_to_lin(ssa, n))
    else:
        tree = ContractionTree.from_path(inputs, output, size, ssa_path=ssa)
    if variant == 1 and not cfg:
        # separate getters first (each has its own from-scratch loop)
        tree.total_flops()
        tree.total_write()
        tree.max_size()
    for k, (ix, mode) in enumerate(cfg):
        if warm == 2 or (warm == 1 and k == 0):
            warm_up(tree)
        if mode == "s":
            tree.remove_ind_(ix)
        elif mode == "r":
            tree.restore_ind_(ix)
        else:
            tree.remove_ind_(ix, project=0)
    return tree


def run_item(item, rec):
    warnings.simplefilter("ignore")
    tier = item["tier"]
    for inputs, output in item["skeletons"]:
        inputs = tuple(inputs)
        n = len(inputs)
        labels = skel.all_labels(inputs)
        trees = skel.all_trees(n)
        cfgs = slice_configs(labels, tier, n)
        if item.get("fixed4") and tier == "quick":
            trees = trees[:3]
            cfgs = cfgs[:1] + cfgs[1::4]
        for ones in ones_patterns(labels, tier, len(inputs[0]) + len(output) + sum(map(len, inputs))):
            for ti, ssa in enumerate(trees):
                for ci, cfg in enumerate(cfgs):
                    variant = (ti + ci) % 2
                    use_sym_order = n >= 4 or (ci % 3 == 0)
                    build = ["ssa", "multi", "ssa", "auto"][(ti + 2 * ci) % 4] if n >= 3 else "ssa"
                    if n >= 4 and ti == 0:
                        build = "multi3"
                    warm = (ti + 2 * ci) % 3 if cfg else 0
                    case = dict(inputs=list(inputs), output=output, ones=list(ones), ssa=[list(p) for p in ssa],
                                cfg=[list(x) for x in cfg], variant=variant, build=build, warm=warm)

                    def harness(ctx, cfg=cfg, ssa=ssa, ones=ones, variant=variant, case=case, use_sym_order=use_sym_order, build=build, warm=warm):
                        size = {c: (1 if c in ones else symx.sym_int("d_" + c, 2)) for c in labels}
                        order = None

                        def viol0(m):
                            d = dict(case=case, size={c: symx.eval_model(m, size[c]) for c in labels}, signature=["C03a", list(inputs), output, case["cfg"]])
                            if isinstance(order, SymOrder):
                                d["order_keys"] = [[sorted(nd), symx.eval_model(m, k)] for nd, k in order.keys.items()]
                            return d

                        with rec.guarded(ctx, "stats==definition", viol0):
                            tree = make_tree(inputs, output, size, ssa, cfg, variant, build, warm)
                            st = tree.contract_stats()
                            tf, tw, ms = tree.total_flops(), tree.total_write(), tree.max_size()
                            order = SymOrder() if use_sym_order else None
                            steps = list(tree.traverse(order))
                            # the order must be admissible: every internal node once, children first
                            done = {frozenset([i]) for i in range(n)}
                            ok_order = len(steps) == n - 1
                            for p, l, r in steps:
                                ok_order = ok_order and l in done and r in done and p == l | r and p not in done
                                done.add(p)
                            peak = tree.peak_size(order)
                            if tree._track_size:
                                symx.keys_guard(tree._sizes._c)
                            sliced, proj = effective(cfg)
                            ref = costs.tree_costs(inputs, output, size, steps, sliced, proj)
                            bads = []
                            if not ok_order:
                                bads.append(z3.BoolVal(True))
                            for got, want in ((st["flops"], ref["flops"]), (st["write"], ref["write"]), (st["size"], ref["size"]),
                                              (tf, ref["flops"]), (tw, ref["write"]), (ms, ref["size"]), (peak, ref["peak"]),
                                              (tree.multiplicity, ref["mult"])):
                                bads.append(term(got) != term(want))
                            for (p, f, s, inv, lp) in ref["per_step"]:
                                bads.append(term(tree.get_flops(p)) != term(f))
                                bads.append(term(tree.get_size(p)) != term(s))
                                if sorted(tree.get_legs(p)) != lp or sorted(tree.get_involved(p)) != inv:
                                    bads.append(z3.BoolVal(True))
                        bad = z3.Or(bads)

                        def viol(m):
                            d = dict(case=case)
                            d["size"] = {c: symx.eval_model(m, size[c]) for c in labels}
                            if isinstance(order, SymOrder):
                                d["order_keys"] = [[sorted(nd), symx.eval_model(m, k)] for nd, k in order.keys.items()]
                            d["signature"] = ["C03a", list(inputs), output, case["cfg"]]
                            return d

                        rec.refute(ctx, bad, "stats==definition", viol)

                        # ---- part (b): shapes actually produced
                        rcd = Recorder()
                        arrs = [ShapeArr([size[c] for c in t]) for t in inputs]
                        pe = bool(variant)
                        with rec.guarded(ctx, "executed shapes==reported", viol0):
                            if tree.sliced_inds:
                                sl = tree.slice_arrays(arrs, 0)
                            else:
                                sl = arrs
                            out = tree.contract_core(sl, order=order, prefer_einsum=pe, implementation=(rcd.einsum, rcd.tensordot))
                        bads = list(rcd.mismatch)
                        pair_calls = [c for c in rcd.calls if len(c["in_shapes"]) == 2]
                        if len(pair_calls) != n - 1:
                            bads.append(True)
                        else:
                            for (p, l, r), c in zip(list(tree.traverse(order)), pair_calls):
                                inds = tree.get_inds(p)
                                if c["kind"] == "tensordot":
                                    # the Contractor transposes *after* tensordot returns
                                    perm = tree.get_tensordot_perm(p)
                                    if perm is not None:
                                        c["out_shape"] = tuple(c["out_shape"][q] for q in perm)
                                if len(inds) != len(c["out_shape"]):
                                    bads.append(True)
                                    continue
                                for ix, d in zip(inds, c["out_shape"]):
                                    bads.append(term(d) != term(size[ix]))
                                sz = 1
                                for d in c["out_shape"]:
                                    sz = sz * d
                                bads.append(term(sz) != term(tree.get_size(p)))
                                bads.append(term(c["flops"]) != term(tree.get_flops(p)))
                        want_out = [size[ix] for ix in output if ix not in tree.sliced_inds]
                        if len(out.shape) != len(want_out):
                            bads.append(True)
                        else:
                            for d, w in zip(out.shape, want_out):
                                bads.append(term(d) != term(w))
                        bads = [z3.BoolVal(b) if isinstance(b, bool) else b for b in bads]
                        bad = z3.Or(bads) if bads else False

                        def viol_b(m):
                            d = dict(case=case, prefer_einsum=pe)
                            d["size"] = {c: symx.eval_model(m, size[c]) for c in labels}
                            d["signature"] = ["C03b", list(inputs), output, case["cfg"]]
                            return d

                        rec.refute(ctx, bad, "executed shapes==reported", viol_b, reach_probe=False)
                        return None

                    out = symx.explore(harness, max_paths=400)
                    rec.add_explore(out)
        rec.sample(dict(inputs=list(inputs), output=output, sizes="d_x >= 2 symbolic / one label == 1", trees=len(trees), slice_configs=len(cfgs)))
        # engine validation: solve pc of one path to concrete sizes and run natively
        rec.validated += validate_concrete(inputs, output, labels, trees[-1], cfgs[-1])


def concrete_stats(inputs, output, size, ssa, cfg, variant, order=None, build="ssa", warm=0):
    tree = make_tree(inputs, output, size, ssa, cfg, variant, build, warm)
    st = tree.contract_stats()
    steps = list(tree.traverse(order))
    sliced, proj = effective(cfg)
    ref = costs.tree_costs(inputs, output, size, steps, sliced, proj)
    got = dict(flops=st["flops"], write=st["write"], size=st["size"], peak=tree.peak_size(order), tf=tree.total_flops(),
               tw=tree.total_write(), ms=tree.max_size())
    want = dict(flops=ref["flops"], write=ref["write"], size=ref["size"], peak=ref["peak"], tf=ref["flops"], tw=ref["write"], ms=ref["size"])
    per = [(tree.get_flops(p), f, tree.get_size(p), s) for (p, f, s, _, _) in ref["per_step"]]
    return got, want, per


def validate_concrete(inputs, output, labels, ssa, cfg):
    size = {c: 2 + (i % 3) for i, c in enumerate(labels)}
    got, want, per = concrete_stats(inputs, output, size, ssa, cfg, 0)
    want = {k: (z3.simplify(v).as_long() if z3.is_expr(v) else v) for k, v in want.items()}
    return int(got == want)


def replay(v):
    warnings.simplefilter("ignore")
    case = v["case"]
    inputs, output = tuple(case["inputs"]), case["output"]
    size = {k: int(x) for k, x in v["size"].items()}
    ssa = [tuple(p) for p in case["ssa"]]
    cfg = [tuple(x) for x in case["cfg"]]
    order = None
    if "order_keys" in v:
        keys = {frozenset(nd): k for nd, k in v["order_keys"]}
        order = lambda node: keys.get(node, 0)  # noqa
    if v["label"].startswith("stats"):
        got, want, per = concrete_stats(inputs, output, size, ssa, cfg, case["variant"], order, case.get("build", "ssa"), case.get("warm", 0))
        want = {k: (z3.simplify(x).as_long() if z3.is_expr(x) else x) for k, x in want.items()}
        if got != want:
            return True, f"reported {got} != definition {want}"
        for gf, f, gs, s in per:
            f = z3.simplify(f).as_long() if z3.is_expr(f) else f
            s = z3.simplify(s).as_long() if z3.is_expr(s) else s
            if gf != f or gs != s:
                return True, f"per-step flops/size {gf},{gs} != definition {f},{s}"
        return False, "real code agrees with the definition at the model sizes"
    # part (b): run with real numpy arrays and record shapes
    import numpy as np

    tree = make_tree(inputs, output, size, ssa, cfg, case["variant"], case.get("build", "ssa"), case.get("warm", 0))
    seen = []

    def rec_einsum(eq, *ops):
        r = np.einsum(eq, *ops)
        if len(ops) == 2:
            seen.append(r.shape)
        return r

    def rec_tensordot(a, b, axes):
        r = np.tensordot(a, b, axes)
        seen.append(r.shape)
        return r

    arrays = [np.ones([size[c] for c in t]) for t in inputs]
    sl = tree.slice_arrays(arrays, 0) if tree.sliced_inds else arrays
    try:
        out = tree.contract_core(sl, order=order, prefer_einsum=v.get("prefer_einsum", False), implementation=(rec_einsum, rec_tensordot))
    except Exception as e:  # noqa
        return True, f"real contraction raised {e!r}"
    for (p, l, r), shp in zip(tree.traverse(order), seen):
        if int(np.prod(shp)) != tree.get_size(p):
            return True, f"intermediate {sorted(p)} has shape {shp} but tree reports size {tree.get_size(p)}"
    want = tuple(size[ix] for ix in output if ix not in tree.sliced_inds)
    if np.shape(out) != want:
        return True, f"output shape {np.shape(out)} != {want}"
    return False, "shapes agree at the model sizes"


if __name__ == "__main__":
    sys.exit(main("checks.c03"))
