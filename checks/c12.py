"""C12 -- the einsum front end accepts what numpy.einsum accepts and means the
same; array_contract / ncon give the value of the equivalent einsum.

Symbolic: every array entry (z3 Real).  Enumerated: call forms from a grammar
(explicit / implicit output, `...` left / right / middle of each operand and in
the output or not, operands whose ellipsis ranks differ, whitespace,
interleaved form with / without output list and with Ellipsis, 1-3 operands),
size-1 broadcasting variants, hashable-label and ncon forms.
Oracle: numpy.einsum itself executed on the SAME symbolic object arrays (the
specification named by the property); dense evaluator for array_contract /
ncon.  Calls numpy rejects are skipped (precondition = numpy accepts).
"""

import itertools
import sys
import warnings

import numpy as np
import z3

from vlib import skel, symarr, symx
from vlib.runner import main

PROPERTY = "C12"
STUBS = ["autoray.register_backend(z3.ArithRef, 'numpy')"]
ASSUMPTIONS = [
    "arithmetic over the reals",
    "numpy.einsum on object arrays computes the same polynomial it computes on floats (it is the oracle)",
    "module-level caches are cleared at the start of each work item",
]
OUTSIDE = ["more than 3 operands (4 in thorough, restricted)", "named rank above 2 per operand, ellipsis rank above 2", "dtype / order / casting keyword arguments of numpy.einsum"]


def bounds(tier):
    return dict(operands="1..3 (3 operands: <=3 named positions in total)", named_rank_per_operand="<=2", labels="<=3", ellipsis_rank="0..2 per operand, differing ranks right-aligned",
                output="implicit, or every ordered subset (<=2) of labels with '...' left/right/absent", sizes="named 2/3 alternating; ellipsis dims (2,3); broadcast variants with one dimension set to 1",
                interleaved="every string-form case is also issued in interleaved form (int labels, Ellipsis object)" if tier != "quick" else "a rotating third of the cases is also issued in interleaved form")


# ---------------------------------------------------------------------------
# grammar


def operand_forms(max_named):
    """(n_left, ellipsis?, n_right)"""
    forms = []
    for n in range(0, max_named + 1):
        forms.append((n, False, 0))
        for l in range(0, n + 1):
            forms.append((l, True, n - l))
    return forms


def gen_cases(tier):
    cases = []
    max_ops = 3
    forms = operand_forms(2)
    for nops in range(1, max_ops + 1):
        for fs in itertools.product(forms, repeat=nops):
            named_pos = sum(f[0] + f[2] for f in fs)
            if nops == 3 and named_pos > 3:
                continue
            if nops == 3 and tier == "quick" and sum(f[1] for f in fs) == 3 and named_pos > 2:
                continue
            any_ell = any(f[1] for f in fs)
            ell_opts = [()]
            if any_ell:
                idx = [i for i, f in enumerate(fs) if f[1]]
                if nops == 1:
                    ell_opts = [(e,) for e in (0, 1, 2)]
                elif nops == 2:
                    ell_opts = [e for e in itertools.product((0, 1, 2), repeat=len(idx)) if max(e) >= 1]
                else:
                    ell_opts = [e for e in itertools.product((0, 1, 2), repeat=len(idx)) if max(e) >= 1 and sum(e) <= (2 if tier == "quick" else 3)]
            for g in skel.rgs(named_pos, kmax=3):
                labs = [skel.LETTERS[x] for x in g]
                terms = []
                k = 0
                for f in fs:
                    l = "".join(labs[k : k + f[0]])
                    k += f[0]
                    r = "".join(labs[k : k + f[2]])
                    k += f[2]
                    terms.append((l, f[1], r))
                used = sorted(set(labs))
                outs = [None]
                for orank in range(0, min(2, len(used)) + 1):
                    for o in itertools.permutations(used, orank):
                        o = "".join(o)
                        if any_ell:
                            outs.append("..." + o)
                            outs.append(o + "...")
                            outs.append(o)
                        else:
                            outs.append(o)
                for ell in ell_opts:
                    for out in outs:
                        cases.append((terms, ell, out))
    return cases


def build_call(terms, ell, out, ones=(), spaces=False):
    """-> (eq, shapes)"""
    named_size = {}
    for l, _, r in terms:
        for c in l + r:
            named_size.setdefault(c, 2 + (len(named_size) % 2))
    ell_dims_full = (2, 3)
    eqs = []
    shapes = []
    ei = 0
    for ti, (l, has, r) in enumerate(terms):
        if has:
            e = ell[ei]
            ei += 1
            ed = list(ell_dims_full[len(ell_dims_full) - e :]) if e else []
            t = l + "..." + r
        else:
            ed = []
            t = l + r
        shp = [named_size[c] for c in l] + ed + [named_size[c] for c in r]
        for (tj, ax) in ones:
            if tj == ti and ax < len(shp):
                shp[ax] = 1
        eqs.append(t)
        shapes.append(tuple(shp))
    sep = " , " if spaces else ","
    eq = sep.join(eqs)
    if out is not None:
        eq += (" -> " if spaces else "->") + out
    return eq, shapes


def to_interleaved(eq, arrays, rev=False):
    """string form -> interleaved args with int labels / Ellipsis objects; rev: the int labels are numbered
    downwards, so that the order of first appearance differs from numpy's sorted-label order"""
    eq = eq.replace(" ", "")
    if "->" in eq:
        lhs, out = eq.split("->")
    else:
        lhs, out = eq, None

    def conv(t):
        res = []
        i = 0
        while i < len(t):
            if t[i] == ".":
                res.append(Ellipsis)
                i += 3
            else:
                res.append((40 - (ord(t[i]) - ord("a"))) if rev else (ord(t[i]) - ord("a")))
                i += 1
        return res

    args = []
    for t, a in zip(lhs.split(","), arrays):
        args += [a, conv(t)]
    if out is not None:
        args.append(conv(out))
    return args


def items(tier, seed):
    cases = gen_cases(tier)
    its = []
    chunk = 150 if tier == "quick" else 250
    for i in range(0, len(cases), chunk):
        its.append({"kind": "einsum", "cases": [[list(map(list, t)), list(e), o] for t, e, o in cases[i : i + chunk]], "tier": tier, "k": i})
    its.append({"kind": "labels", "tier": tier, "k": 0})
    for n in ((28, 54) if tier == "quick" else (27, 28, 40, 53, 54, 60)):
        its.append({"kind": "manylabels", "n": n, "tier": tier, "k": n})
    return its


def clear_caches():
    import importlib

    I = importlib.import_module("cotengra.interface")
    U = importlib.import_module("cotengra.utils")
    I._PATH_CACHE.clear()
    I._CONTRACT_EXPR_CACHE.clear()
    U.parse_equation_ellipses.cache_clear()


def size1_mismatch(eq, shapes):
    """does some label (ellipsis dims right-aligned) have dimension 1 on one
    operand and n > 1 on another?"""
    lhs = eq.replace(" ", "").split("->")[0]
    dims = {}
    for t, shp in zip(lhs.split(","), shapes):
        if "..." in t:
            l, r = t.split("...")
            ne = len(shp) - len(l) - len(r)
            labs = list(l) + [("ell", -(ne - k)) for k in range(ne)] + list(r)
        else:
            labs = list(t)
        for c, d in zip(labs, shp):
            dims.setdefault(c, set()).add(d)
    return any(1 in v and len(v) > 1 for v in dims.values())


def one_call(rec, ctx, args, arrays, desc, fk=None):
    import cotengra as ctg

    try:
        want = np.einsum(*args)
    except Exception:  # noqa
        rec.notes["numpy_rejected_skipped"] = rec.notes.get("numpy_rejected_skipped", 0) + 1
        return
    want = symarr.as_obj_array(want)
    case = dict(desc=desc)
    try:
        got = ctg.einsum(*args)
    except Exception as e:  # noqa
        rec.concrete_violation("cotengra.einsum raised where numpy accepts", dict(case=case, error=repr(e)[:200], finding_key=(fk if isinstance(e, ValueError) else None),
                                                                                 signature=["C12", desc["eq"], desc["shapes"], desc["form"], "raise"]))
        return
    got = symarr.as_obj_array(got)
    bad = symarr.diff_formula(got, want)

    def viol(m):
        return dict(case=case, arrays=[a.tolist() for a in symarr.model_arrays(m, arrays)], got_shape=list(got.shape), want_shape=list(want.shape),
                    signature=["C12", desc["eq"], desc["shapes"], desc["form"]])

    rec.refute(ctx, bad, "cotengra.einsum==numpy.einsum", viol)


def run_item(item, rec):
    warnings.simplefilter("ignore")
    clear_caches()
    tier = item["tier"]
    if item["kind"] == "labels":
        return run_labels(item, rec)
    if item["kind"] == "manylabels":
        return run_manylabels(item, rec)
    for ci, (terms, ell, out) in enumerate(item["cases"]):
        terms = [tuple(t) for t in terms]
        variants = [((), False)]
        # whitespace variant
        if ci % 5 == 0:
            variants.append(((), True))
        # size-1 broadcasting variants: set one axis of one operand to 1
        if len(terms) >= 2:
            nax0 = len(terms[0][0]) + len(terms[0][2]) + (2 if terms[0][1] else 0)
            for ax in range(min(nax0, 3)):
                if (ci + ax) % (2 if tier == "quick" else 1) == 0:
                    variants.append((((0, ax),), False))
        for ones, spaces in variants:
            eq, shapes = build_call(terms, ell, out, ones, spaces)
            arrays = [symarr.sym_array(f"x{k}", s) for k, s in enumerate(shapes)]
            # numpy broadcasts a dimension of size 1 against size n for the same
            # label; cotengra keeps one size per label (known finding when it raises)
            fk = "einsum:size-1-broadcast-raises" if size1_mismatch(eq, shapes) else None
            forms = ["string"]
            if tier != "quick" or ci % 3 == 0:
                forms.append("interleaved")
            if tier != "quick" or ci % 3 == 1:
                forms.append("interleaved-rev")
            for form in forms:
                desc = dict(eq=eq, shapes=[list(s) for s in shapes], form=form)

                def harness(ctx, form=form, desc=desc, fk=fk):
                    args = [eq] + arrays if form == "string" else to_interleaved(eq, arrays, rev=form.endswith("rev"))
                    one_call(rec, ctx, args, arrays, desc, fk)

                rec.add_explore(symx.explore(harness, max_paths=2))
        if ci % 40 == 0:
            rec.sample(dict(eq=eq, shapes=[list(s) for s in shapes], entries="z3 Reals", oracle="numpy.einsum on the same arrays"))
    # engine validation
    import cotengra as ctg

    eq, shapes = build_call([tuple(t) for t in item["cases"][0][0]], item["cases"][0][1], item["cases"][0][2])
    conc = [np.random.default_rng(1).uniform(0.5, 1.5, size=s) for s in shapes]
    try:
        w = np.einsum(eq, *conc)
        g = ctg.einsum(eq, *conc)
        if np.allclose(g, w):
            rec.validated += 1
    except Exception:  # noqa
        pass


# ---------------------------------------------------------------------------
# array_contract with arbitrary hashable labels, ncon


RELABELINGS = [
    lambda c: ord(c),  # ints
    lambda c: (c, 1),  # tuples
    lambda c: (ord(c) if ord(c) % 2 else c + "x"),  # mixed
    lambda c: frozenset([c]),
    lambda c: c * 3,  # multi-char strings
]


def many_chain(n, p, q):
    """open chain of n tensors over int labels numbered in order of first appearance; tensors p and q (p < q) carry
    one extra dangling index each; all inner bonds have size 1 except the middle one"""
    inputs, size = [], {}
    nxt = [0]

    def new(sz):
        size[nxt[0]] = sz
        nxt[0] += 1
        return nxt[0] - 1

    left = new(2)
    for k in range(n):
        t = [left]
        if k in (p, q):
            t.append(new(2 if k == p else 3))
        right = new(3 if k == n - 1 else (2 if k == n // 2 else 1))
        t.append(right)
        inputs.append(tuple(t))
        left = right
    flat = [c for t in inputs for c in t]
    implicit = [c for c in dict.fromkeys(flat) if flat.count(c) == 1]
    return inputs, size, implicit


MANY_POS = [0, 11, 24, 25, 26, 39, 50, 51, 52, 53]


def run_manylabels(item, rec):
    """array_contract with MORE THAN 26 / 52 distinct labels and an implicit output: the documented output order
    (once-appearing labels in order of first appearance) must hold across the internal symbol alphabet's boundaries"""
    import cotengra as ctg

    n = item["n"]
    cand = [x for x in MANY_POS if x < n]

    def harness(ctx):
        i = symx.choose("p", len(cand) - 1)
        j = i + 1 + symx.choose("q", len(cand) - 1 - i)
        p, q = cand[i], cand[j]
        explicit = bool(symx.choose("explicit_output", 2))
        inputs, size, implicit = many_chain(n, p, q)
        chars = {c: chr(0x100 + c) for c in size}
        sin = tuple("".join(chars[c] for c in t) for t in inputs)
        ssize = {chars[c]: d for c, d in size.items()}
        arrays = symarr.sym_arrays(sin, ssize)
        ref = symarr.dense_einsum(sin, "".join(chars[c] for c in implicit), ssize, arrays)
        desc = dict(form="manylabels", n=n, p=p, q=q, explicit=explicit, shapes=[list(a.shape) for a in arrays], eq=f"chain{n}[{p},{q}]")
        try:
            got = ctg.array_contract(arrays, inputs, tuple(implicit) if explicit else None)
        except Exception as e:  # noqa
            rec.concrete_violation("array_contract raised", dict(case=dict(desc=desc), error=repr(e)[:200], signature=["C12", "manylabels", n, p, q, explicit, "raise"]))
            return
        got = symarr.as_obj_array(got)
        bad = True if got.shape != ref.shape else symarr.diff_formula(got, ref)
        rec.refute(ctx, bad, "array_contract (many labels, implicit output order) == einsum",
                   lambda m: dict(case=dict(desc=desc), arrays=[a.tolist() for a in symarr.model_arrays(m, arrays)], signature=["C12", "manylabels", n, p, q, explicit]))

    rec.add_explore(symx.explore(harness, max_paths=400, deadline_s=(60 if item["tier"] == "quick" else 400)))
    rec.sample(dict(form="array_contract, int labels, chain of %d tensors with two solver-placed dangling indices" % n, labels=n + 3))
    rec.validated += 1


def run_labels(item, rec):
    import cotengra as ctg

    tier = item["tier"]
    relabelings = RELABELINGS
    sk = skel.skeletons(2, 2, 3, 2, dedupe_perm=False) + skel.skeletons(3, 2, 3, 2) + skel.skeletons(1, 2, 2, 2)
    if tier == "quick":
        sk = sk[::3]
    for si, (inputs, output) in enumerate(sk):
        labels = skel.all_labels(inputs)
        size = {c: 2 + (i % 2) for i, c in enumerate(labels)}
        arrays = symarr.sym_arrays(inputs, size)
        for ri, rl in enumerate(relabelings):
            if tier == "quick" and (si + ri) % 2:
                continue
            for explicit in (True, False):
                ins = [tuple(rl(c) for c in t) for t in inputs]
                if explicit:
                    out = tuple(rl(c) for c in output)
                    ref_out = output
                else:
                    out = None
                    # documented: indices that appear once, in order of first appearance
                    flat = [c for t in inputs for c in t]
                    ref_out = "".join(c for c in dict.fromkeys(flat) if flat.count(c) == 1)
                ref = symarr.dense_einsum(inputs, ref_out, size, arrays)
                desc = dict(eq=",".join(inputs) + "->" + ref_out, shapes=[list(a.shape) for a in arrays], form=f"array_contract[relabel{ri},explicit={explicit}]",
                            relabel=ri, explicit=explicit, inputs=list(inputs), output=output)

                def harness(ctx, ins=ins, out=out, desc=desc, ref=ref):
                    try:
                        got = ctg.array_contract(arrays, ins, out)
                    except Exception as e:  # noqa
                        rec.concrete_violation("array_contract raised", dict(case=dict(desc=desc), error=repr(e)[:200], signature=["C12", desc["eq"], desc["form"], "raise"]))
                        return
                    got = symarr.as_obj_array(got)
                    bad = symarr.diff_formula(got, ref)

                    def viol(m):
                        return dict(case=dict(desc=desc), arrays=[a.tolist() for a in symarr.model_arrays(m, arrays)], signature=["C12", desc["eq"], desc["form"]])

                    rec.refute(ctx, bad, "array_contract==einsum", viol)

                rec.add_explore(symx.explore(harness, max_paths=2))
        # ncon: output labels negative ints -1,-2,.. in the order of `output`; others positive
        if len(set(output)) == len(output) and all(sum(t.count(c) for t in inputs) == 1 for c in output) and all(
            sum(t.count(c) for t in inputs) >= 2 for c in labels if c not in output
        ):
            m = {}
            for k, c in enumerate(output):
                m[c] = -(k + 1)
            pos = 1
            for c in labels:
                if c not in m:
                    m[c] = pos
                    pos += 1
            idx = [[m[c] for c in t] for t in inputs]
            ref = symarr.dense_einsum(inputs, output, size, arrays)
            desc = dict(eq=",".join(inputs) + "->" + output, shapes=[list(a.shape) for a in arrays], form="ncon", indices=idx)

            def harness(ctx, idx=idx, desc=desc, ref=ref):
                try:
                    got = ctg.ncon(arrays, idx)
                except Exception as e:  # noqa
                    rec.concrete_violation("ncon raised", dict(case=dict(desc=desc), error=repr(e)[:200], signature=["C12", desc["eq"], "ncon", "raise"]))
                    return
                bad = symarr.diff_formula(symarr.as_obj_array(got), ref)

                def viol(mm):
                    return dict(case=dict(desc=desc), arrays=[a.tolist() for a in symarr.model_arrays(mm, arrays)], signature=["C12", desc["eq"], "ncon"])

                rec.refute(ctx, bad, "ncon==einsum", viol)

            rec.add_explore(symx.explore(harness, max_paths=2))
    rec.sample(dict(form="array_contract / ncon", labels="ints, tuples, mixed int/str, frozensets, multi-char strings"))
    rec.validated += 1


def replay(v):
    warnings.simplefilter("ignore")
    import cotengra as ctg

    desc = v["case"]["desc"]
    shapes = [tuple(s) for s in desc["shapes"]]
    tries = []
    if v.get("arrays"):
        tries.append([np.array(a, dtype=float).reshape(s) for a, s in zip(v["arrays"], shapes)])
    rng = np.random.default_rng(11)
    tries.append([rng.uniform(0.5, 1.5, size=s) for s in shapes])
    form = desc["form"]
    for arrays in tries:
        if form == "manylabels":
            inputs, size, implicit = many_chain(desc["n"], desc["p"], desc["q"])
            chars = {c: chr(0x100 + c) for c in size}
            sin = tuple("".join(chars[c] for c in t) for t in inputs)
            want = symarr.np_reference(sin, "".join(chars[c] for c in implicit), {chars[c]: d for c, d in size.items()}, arrays)
            try:
                got = ctg.array_contract(arrays, inputs, tuple(implicit) if desc["explicit"] else None)
            except Exception as e:  # noqa
                return True, f"raised {e!r}"
        elif form in ("string", "interleaved", "interleaved-rev"):
            args = [desc["eq"]] + arrays if form == "string" else to_interleaved(desc["eq"], arrays, rev=form.endswith("rev"))
            want = np.einsum(*args)
            try:
                got = ctg.einsum(*args)
            except Exception as e:  # noqa
                return True, f"cotengra.einsum raised {e!r} where numpy.einsum returns shape {np.shape(want)}"
        else:
            lhs, ref_out = desc["eq"].split("->")
            inputs = tuple(lhs.split(","))
            labels = skel.all_labels(inputs)
            size = {c: 2 + (i % 2) for i, c in enumerate(labels)}
            want = symarr.np_reference(inputs, ref_out, size, arrays)
            try:
                if form == "ncon":
                    got = ctg.ncon(arrays, desc["indices"])
                else:
                    rl = RELABELINGS[desc["relabel"]]
                    ins = [tuple(rl(c) for c in t) for t in desc["inputs"]]
                    out = tuple(rl(c) for c in desc["output"]) if desc["explicit"] else None
                    got = ctg.array_contract(arrays, ins, out)
            except Exception as e:  # noqa
                return True, f"raised {e!r}"
        if np.shape(got) != np.shape(want):
            return True, f"shape {np.shape(got)} != numpy's {np.shape(want)}"
        if not np.allclose(got, want, rtol=1e-9, atol=1e-12):
            return True, "value differs from numpy.einsum"
    return False, "agrees with numpy.einsum"


if __name__ == "__main__":
    sys.exit(main("checks.c12"))
