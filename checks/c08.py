"""C08 -- the hyper-optimizer returns its best trial and reports that trial's
true costs.

(1) selection: the real HyperOptimizer._search / _gen_results(_parallel) /
    _get_and_report_next_future / _maybe_report_result / ComputeScore run with
    an objective whose value for each trial is a solver variable (a real
    score, +inf via BadTrial, or an exception -- solver-chosen) and, in the
    parallel case, a pool stub whose completion ORDER is solver-chosen.
    z3 proves: #trials <= max_repeats; best score == min of the recorded
    scores; the returned tree is the tree of that trial; the per-trial
    records (flops/write/size) are those of the trial's own tree; failed
    trials leave the others' records intact.
(2) true costs: real methods with every post-processing option set; the
    random draws of slicing / annealing are symbolic; the winning trial's
    recorded flops/write/size == contract_stats() of a tree rebuilt from the
    returned tree's path and sliced indices.
"""

import itertools
import sys
import warnings

import z3

from vlib import stubs, symx
from vlib.runner import main
from vlib.symx import term

PROPERTY = "C08"
STUBS = [
    "objective: a callable passed through the public minimize= argument whose value per trial is a fresh solver variable in [1, 100], or raises BadTrial / RuntimeError (solver-chosen)",
    "SymPool passed through the public parallel= argument: submit() runs the task eagerly, the ORDER in which futures report done() is solver-chosen (any permutation of the dispatched futures)",
    "SymRng (grid) as the seed of the 'random' optlib; SymRng inside slicing / annealing options; log stubs as in C02",
    "SymClock: with max_time set, `time` inside cotengra.hyperoptimizers.hyper is replaced by a clock whose successive readings are arbitrary non-decreasing solver variables (time.sleep is a no-op)",
]
ASSUMPTIONS = ["score_compression=1.0 in (1) (a symbolic score cannot be raised to a fractional power); the tiny gaussian smudge ComputeScore adds is kept (concrete)", "concrete index sizes"]
OUTSIDE = ["real process pools (pickling, OS scheduling)", "optlibs other than 'random'"]

NETS = [
    (("ab", "bc", "cd", "da"), "", {"a": 2, "b": 3, "c": 2, "d": 3}),
    (("ab", "bc", "cd", "de", "ef"), "af", {"a": 2, "b": 4, "c": 3, "d": 2, "e": 3, "f": 2}),
    (("abx", "bcx", "cdx", "de"), "ex", {"a": 2, "b": 3, "c": 2, "d": 2, "e": 3, "x": 2}),
]

POST = [
    dict(),
    dict(slicing_opts={"target_size": 6}),
    dict(reconf_opts={"subtree_size": 3, "maxiter": 2}),
    dict(slicing_reconf_opts={"target_size": 6, "max_repeats": 2, "reconf_opts": {"subtree_size": 3, "maxiter": 2}}),
    dict(simulated_annealing_opts={"tsteps": 1, "numiter": 1}),
    dict(slicing_opts={"target_size": 6}, reconf_opts={"subtree_size": 3, "maxiter": 2}),
    dict(simulated_annealing_opts={"tsteps": 1, "numiter": 1, "target_size": 6}, reconf_opts={"subtree_size": 3, "maxiter": 1}),
]


def bounds(tier):
    return dict(selection=f"max_repeats in 1..{'3' if tier == 'quick' else '4'}, serial and SymPool (pre_dispatch forced to 2), every outcome kind per trial; max_time in {MAX_TIMES} with a symbolic clock (quick: a rotating subset)", true_costs="3 networks x 7 post-processing option sets x methods {greedy, random-greedy}, max_repeats=2")


def items(tier, seed):
    its = []
    for ni in range(len(NETS)):
        for par in (False, True):
            for reps in ((1, 2, 3) if tier == "quick" else (1, 2, 3, 4)):
                its.append({"part": "sel", "net": ni, "parallel": par, "reps": reps, "tier": tier})
            for mt in MAX_TIMES[1:]:
                if tier == "thorough" or (ni + len(str(mt))) % 2 == 0 or par:
                    its.append({"part": "sel", "net": ni, "parallel": par, "reps": (3 if tier == "quick" else 4), "tier": tier, "max_time": mt})
    for ni in range(len(NETS)):
        for pi in range(len(POST)):
            for method in ("greedy", "random-greedy"):
                its.append({"part": "cost", "net": ni, "post": pi, "method": method, "tier": tier})
    return its


MAX_TIMES = [None, 10.0, "equil:1", "rate:100.0"]


class SymClock:
    """stands in for the `time` module inside hyper.py: arbitrary non-decreasing instants"""

    def __init__(self):
        self.reads = []

    def time(self):
        t = symx.sym_real(f"clock{len(self.reads)}", 0, 100000)
        if self.reads:
            symx.CTX.assume(term(t) >= term(self.reads[-1]))
        self.reads.append(t)
        return t

    def sleep(self, s):
        pass


class ScriptedClock:
    def __init__(self, values):
        self.values, self.k = list(values), 0

    def time(self):
        v = self.values[self.k] if self.k < len(self.values) else (self.values[-1] if self.values else 0.0)
        self.k += 1
        return v

    def sleep(self, s):
        pass


class clock_stub:
    def __init__(self, clock):
        self.clock = clock

    def __enter__(self):
        import importlib

        self.H = importlib.import_module("cotengra.hyperoptimizers.hyper")
        self.saved = self.H.time
        if self.clock is not None:
            self.H.time = self.clock

    def __exit__(self, *exc):
        self.H.time = self.saved


class SymFuture:
    def __init__(self, pool, value, exc):
        self.pool, self.value, self.exc = pool, value, exc
        self.reported = False

    def done(self):
        return self.pool._is_ready(self)

    def result(self):
        self.reported = True
        self.pool.ready = None
        if self.exc is not None:
            raise self.exc
        return self.value

    def cancel(self):
        return True


class SymPool:
    """submit runs eagerly; which pending future reports done() next is solver-chosen"""

    _max_workers = 1

    def __init__(self, objective=None):
        self.pending = []
        self.ready = None
        self.order = []
        self.objective = objective

    def submit(self, fn, *args, **kwargs):
        k0 = len(self.objective.trials) if self.objective is not None else None
        try:
            f = SymFuture(self, fn(*args, **kwargs), None)
        except (symx.PathAbort, symx.Unsupported, symx.Budget):
            raise
        except Exception as e:  # noqa
            f = SymFuture(self, None, e)
        f.trial_index = k0
        self.pending.append(f)
        return f

    def _is_ready(self, f):
        if self.ready is None:
            cands = [g for g in self.pending if not g.reported]
            if not cands:
                return False
            self.ready = cands[symx.choose("done", len(cands))]
            self.order.append(self.pending.index(self.ready))
        return f is self.ready


class SymObjective:
    def __init__(self):
        self.trials = []  # (tree, outcome, score)

    def __call__(self, trial):
        from cotengra.scoring import ensure_basic_quantities_are_computed
        from cotengra.utils import BadTrial

        ensure_basic_quantities_are_computed(trial)
        k = len(self.trials)
        kind = symx.choose(f"outcome{k}", 3)
        if kind == 1:
            self.trials.append((trial["tree"], "bad", None))
            raise BadTrial()
        if kind == 2:
            self.trials.append((trial["tree"], "error", None))
            raise RuntimeError("trial failed")
        s = symx.sym_real(f"score{k}", 1, 100)
        self.trials.append((trial["tree"], "ok", s))
        return s


def run_sel(item, rec):
    from cotengra.hyperoptimizers.hyper import HyperOptimizer

    inputs, output, size = NETS[item["net"]]
    reps = item["reps"]
    case0 = dict(part="sel", net=item["net"], parallel=item["parallel"], reps=reps, max_time=item.get("max_time"))

    def harness(ctx):
        import random as _r

        _r.seed(777 + item["net"])
        obj = SymObjective()
        pool = SymPool(obj) if item["parallel"] else False
        mt = item.get("max_time")
        clock = SymClock() if mt is not None else None
        opt = HyperOptimizer(methods=["greedy"], minimize=obj, max_repeats=reps, parallel=pool, optlib="random", score_compression=1.0, on_trial_error="ignore", seed=3, max_time=mt)
        if item["parallel"]:
            opt.pre_dispatch = 2
        err = None
        with clock_stub(clock):
            try:
                tree = opt.search(inputs, output, size)
            except (symx.PathAbort, symx.Unsupported, symx.Budget):
                raise
            except KeyError as e:
                tree, err = None, e  # legitimate only if every trial failed: there is no tree to return
            except Exception as e:  # noqa
                tree, err = None, repr(e)
        # the trials the search RAN = those whose result it collected: with early stopping on a pool, futures
        # still in flight are cancelled / discarded by design and are not trials of this search
        if item["parallel"]:
            ran = [obj.trials[f.trial_index] for f in pool.pending if f.reported and f.trial_index is not None and f.trial_index < len(obj.trials)]
        else:
            ran = list(obj.trials)
        if isinstance(err, KeyError):
            err = repr(err) if any(kind == "ok" for _, kind, _ in ran) else None
        oks = [(t, s) for (t, kind, s) in ran if kind == "ok"]
        bads = []
        conc = []
        if err is not None:
            conc.append(f"search raised {err}")
        if len(obj.trials) > reps or len(opt.scores) > reps:
            conc.append(f"{len(obj.trials)} trials run, max_repeats={reps}")
        if len(opt.scores) != len(ran):
            conc.append(f"{len(opt.scores)} results recorded for {len(ran)} collected trials")
        if oks and tree is None and err is None:
            conc.append("no tree although a trial succeeded")
        if tree is not None:
            if not (tree.is_complete() and tuple(tree.inputs) == tuple(inputs)):
                conc.append("returned tree is not a complete tree of the query")
            # recorded scores (these include ComputeScore's concrete smudge)
            fin = [s for s in opt.scores if not (isinstance(s, float) and s == float("inf"))]
            best = opt.best["score"]
            for s in fin:
                bads.append(term(best) > term(s))
            # the returned tree is the tree of a trial whose raw score is minimal among the successful ones
            idx = [i for i, (t, s) in enumerate(oks) if t is tree]
            if len(idx) != 1:
                conc.append("returned tree is not the tree object of exactly one successful trial")
            else:
                mine = oks[idx[0]][1]
                for (t, s) in oks:
                    # smudge is O(1e-6): allow it
                    bads.append(term(mine) > term(s) + 1e-4)
            # per-trial records belong to the trial's own tree
            st = tree.contract_stats()
            if (opt.best.get("flops"), opt.best.get("write"), opt.best.get("size")) != (st["flops"], st["write"], st["size"]):
                conc.append("best trial's recorded flops/write/size differ from the returned tree")
        # records of successful trials are intact whatever the others did
        rec_ok = [(f, w, s) for f, w, s in zip(opt.costs_flops, opt.costs_write, opt.costs_size) if f != float("inf")]
        true_ok = sorted((t.contract_stats()["flops"], t.contract_stats()["write"], t.contract_stats()["size"]) for t, _ in oks)
        if sorted(rec_ok) != true_ok:
            conc.append("recorded costs of the successful trials differ from their trees")
        bad = z3.Or([z3.BoolVal(bool(conc))] + bads)

        def viol(m):
            return dict(case=case0, outcomes=[k for _, k, _ in obj.trials], collected=([f.trial_index for f in pool.pending if f.reported] if item["parallel"] else None), scores=[None if s is None else float(symx.eval_model(m, s)) for _, _, s in obj.trials],
                        order=(pool.order if item["parallel"] else None), problems=conc[:3], clock=([float(symx.eval_model(m, t)) for t in clock.reads] if clock is not None else None), signature=["C08sel", str(case0), str([k for _, k, _ in obj.trials]), str(conc[:1])])

        rec.refute(ctx, bad, "best == min over trials, tree is that trial's tree, <= max_repeats trials", viol)
        return len(obj.trials)

    out = symx.explore(harness, max_paths=6000, deadline_s=(60 if item["tier"] == "quick" else 600))
    rec.add_explore(out)
    rec.sample(dict(part="selection", case=case0, paths=out.paths, trial_outcomes="ok(score symbolic)/BadTrial/exception, solver-chosen", completion_order="solver-chosen" if item["parallel"] else "serial"))
    rec.validated += 1


def rebuild(tree):
    from cotengra.core import ContractionTree

    t = ContractionTree.from_path(tree.inputs, tree.output, tree.size_dict, path=tree.get_path())
    for ix, si in tree.sliced_inds.items():
        t.remove_ind_(ix) if si.project is None else t.remove_ind_(ix, project=si.project)
    return t


def run_cost(item, rec):
    from cotengra.hyperoptimizers.hyper import HyperOptimizer
    from vlib import history

    inputs, output, size = NETS[item["net"]]
    post = POST[item["post"]]
    case0 = dict(part="cost", net=item["net"], post=item["post"], method=item["method"])

    def harness(ctx):
        import random as _r

        _r.seed(20240 + item["net"] * 100 + item["post"])  # trial_greedy's jitter / gumbel use the global generator: keep the harness deterministic
        stubs.LINKS.clear()
        with history.shadowed_environment(global_rng=False):
            kw = {}
            rngs = {}
            for k, v in post.items():
                v = dict(v)
                if k in ("slicing_opts", "simulated_annealing_opts"):
                    v["seed"] = rngs[k] = stubs.SymRng(k[:3])
                kw[k] = v
            opt = HyperOptimizer(methods=[item["method"]], max_repeats=2, parallel=False, optlib="random", on_trial_error="raise", seed=7, **kw)
            try:
                tree = opt.search(inputs, output, size)
            except (symx.PathAbort, symx.Unsupported, symx.Budget):
                raise
            except Exception as e:  # noqa
                rec.refute(ctx, True, "search completes", lambda m: dict(case=case0, problems=[repr(e)], signature=["C08cost", str(case0), "raise", repr(e)[:60]]))
                return
        probs = []
        if not (tree.is_complete() and tuple(tree.inputs) == tuple(inputs)):
            probs.append("not a complete tree of the query")
        st = rebuild(tree).contract_stats()
        got = (opt.best["flops"], opt.best["write"], opt.best["size"])
        if got != (st["flops"], st["write"], st["size"]):
            probs.append(f"recorded flops/write/size {got} vs rebuilt tree {(st['flops'], st['write'], st['size'])}")
        if min(opt.scores) != opt.best["score"]:
            probs.append("best score is not the minimum of the recorded scores")
        if len(opt.scores) > 2:
            probs.append("more trials than max_repeats")
        rec.refute(ctx, bool(probs), "winning trial's recorded costs == costs of the returned tree",
                   lambda m: dict(case=case0, problems=probs, sliced=list(tree.sliced_inds), scripts={k: stubs.script_from_model_linked(m, r) for k, r in rngs.items()},
                                  signature=["C08cost", str(case0), str(probs)[:80]]))

    out = symx.explore(harness, max_paths=(300 if item["tier"] == "quick" else 3000), deadline_s=(40 if item["tier"] == "quick" else 400))
    rec.add_explore(out)
    rec.sample(dict(part="true costs", case=case0, post=str(post), paths=out.paths))
    rec.validated += 1


def run_item(item, rec):
    warnings.simplefilter("ignore")
    (run_sel if item["part"] == "sel" else run_cost)(item, rec)


class ScriptedObjective:
    def __init__(self, outcomes, scores):
        self.outcomes, self.scores, self.k, self.trees = outcomes, scores, 0, []

    def __call__(self, trial):
        from cotengra.scoring import ensure_basic_quantities_are_computed
        from cotengra.utils import BadTrial

        ensure_basic_quantities_are_computed(trial)
        k = self.k
        self.k += 1
        o = self.outcomes[k] if k < len(self.outcomes) else "ok"
        self.trees.append((trial["tree"], o, self.scores[k] if k < len(self.scores) else 50.0))
        if o == "bad":
            raise BadTrial()
        if o == "error":
            raise RuntimeError("trial failed")
        return self.scores[k] if k < len(self.scores) and self.scores[k] is not None else 50.0


class ScriptedPool:
    _max_workers = 1

    def __init__(self, order, objective=None):
        self.order = list(order)
        self.pending = []
        self.ready = None
        self.objective = objective

    def submit(self, fn, *a, **k):
        k0 = self.objective.k if self.objective is not None else None
        try:
            f = SymFuture(self, fn(*a, **k), None)
        except Exception as e:  # noqa
            f = SymFuture(self, None, e)
        f.trial_index = k0
        self.pending.append(f)
        return f

    def _is_ready(self, f):
        if self.ready is None:
            cands = [g for g in self.pending if not g.reported]
            if not cands:
                return False
            want = self.order.pop(0) if self.order else None
            self.ready = self.pending[want] if want is not None and want < len(self.pending) and not self.pending[want].reported else cands[0]
        return f is self.ready


def replay(v):
    warnings.simplefilter("ignore")
    from cotengra.hyperoptimizers.hyper import HyperOptimizer

    case = v["case"]
    inputs, output, size = NETS[case["net"]]
    if case["part"] == "sel":
        obj = ScriptedObjective(v["outcomes"], v["scores"])
        pool = ScriptedPool(v["order"] or [], obj) if case["parallel"] else False
        opt = HyperOptimizer(methods=["greedy"], minimize=obj, max_repeats=case["reps"], parallel=pool, optlib="random", score_compression=1.0, on_trial_error="ignore", seed=1, max_time=case.get("max_time"))
        if case["parallel"]:
            opt.pre_dispatch = 2
        with clock_stub(ScriptedClock(v["clock"]) if v.get("clock") is not None else None):
            try:
                tree = opt.search(inputs, output, size)
            except KeyError as e:
                tree, kerr = None, e
            except Exception as e:  # noqa
                return True, f"search raised {e!r}"
        ran = [obj.trees[f.trial_index] for f in pool.pending if f.reported and f.trial_index < len(obj.trees)] if case["parallel"] else list(obj.trees)
        if tree is None and any(o == "ok" for _, o, _ in ran):
            return True, f"search raised KeyError('tree') although a collected trial succeeded (max_time={case.get('max_time')}, clock readings {v.get('clock')})"
        if len(opt.scores) != len(ran):
            return True, f"{len(opt.scores)} results recorded for {len(ran)} collected trials"
        oks = [(t, s) for t, o, s in ran if o == "ok"]
        if len(obj.trees) > case["reps"]:
            return True, f"{len(obj.trees)} trials run with max_repeats={case['reps']}"
        if oks and tree is None:
            return True, "no tree returned although a trial succeeded"
        if tree is not None:
            mine = [s for t, s in oks if t is tree]
            if len(mine) != 1:
                return True, "returned tree is not the tree of a successful trial"
            if any(mine[0] > s + 1e-4 for _, s in oks):
                return True, f"returned the trial with score {mine[0]} although a trial scored {min(s for _, s in oks)} (outcomes {v['outcomes']}, completion order {v['order']}, max_time={case.get('max_time')}, clock readings {v.get('clock')})"
            st = tree.contract_stats()
            if (opt.best.get("flops"), opt.best.get("write"), opt.best.get("size")) != (st["flops"], st["write"], st["size"]):
                return True, "best trial's recorded costs differ from the returned tree"
        rec_ok = sorted((f, w, s) for f, w, s in zip(opt.costs_flops, opt.costs_write, opt.costs_size) if f != float("inf"))
        true_ok = sorted((t.contract_stats()["flops"], t.contract_stats()["write"], t.contract_stats()["size"]) for t, _ in oks)
        if rec_ok != true_ok:
            return True, "recorded costs of successful trials differ from their trees"
        return False, "selection is correct on the scripted outcomes"
    post = POST[case["post"]]
    import random as _r

    for seed in ["script"] + list(range(8)):
        kw = {}
        for k, val in post.items():
            val = dict(val)
            if k in ("slicing_opts", "simulated_annealing_opts"):
                val["seed"] = stubs.ScriptedRng(v.get("scripts", {}).get(k, [])) if seed == "script" else seed
            kw[k] = val
        if seed == "script":
            # same global-generator state as in the symbolic run (trial_greedy's jitter / gumbel)
            _r.seed(20240 + case["net"] * 100 + case["post"])
        opt = HyperOptimizer(methods=[case["method"]], max_repeats=2, parallel=False, optlib="random", on_trial_error="raise", seed=(7 if seed == "script" else seed), **kw)
        try:
            tree = opt.search(inputs, output, size)
        except Exception as e:  # noqa
            if seed == "script":
                continue
            return True, f"search raised {e!r}"
        st = rebuild(tree).contract_stats()
        got = (opt.best["flops"], opt.best["write"], opt.best["size"])
        if got != (st["flops"], st["write"], st["size"]):
            return True, f"post-processing {post}: recorded flops/write/size {got} but the returned tree rebuilt from its path and slices gives {(st['flops'], st['write'], st['size'])} (seed {seed})"
    return False, "recorded costs equal the rebuilt tree on 8 seeds"


if __name__ == "__main__":
    sys.exit(main("checks.c08"))
